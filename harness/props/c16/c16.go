// Package c16 ties the Lean model of Envelope.Correct / Replicate
// (Model/Correct.lean, correction definitions regenerated from the regimes
// and addons) to the real code, and checks on the real code what a functional
// model cannot show: the source envelope's bytes and deep structure before
// and after the call, and after mutating the result (aliasing).
package c16

import (
	"bytes"
	"encoding/json"
	"fmt"
	"os"
	"path/filepath"
	"sort"
	"strings"
	"sync"
	"time"

	"github.com/invopop/gobl"
	"github.com/invopop/gobl/bill"
	"github.com/invopop/gobl/cal"
	"github.com/invopop/gobl/cbc"
	"github.com/invopop/gobl/head"
	"github.com/invopop/gobl/schema"
	"github.com/invopop/gobl/tax"

	"verifharness/internal/clibin"
	"verifharness/internal/conc"
	"verifharness/internal/core"
)

// optSet is one option combination.
type optSet struct {
	Type       string `json:"type"` // "" = none given
	Reason     bool   `json:"reason"`
	Ext        bool   `json:"ext"`
	StampsOpt  bool   `json:"stamps_option"`
	StampsHead bool   `json:"stamps_header"`
	Series     bool   `json:"series"`
	Date       bool   `json:"date"`
	CopyTax    bool   `json:"copy_tax"`
	ViaData    bool   `json:"via_data"` // pass the options as raw JSON (bill.WithData)
}

type tcase struct {
	Op     string `json:"op"` // correct | replicate
	Name   string `json:"name"`
	Source string `json:"source"` // envelope JSON
	Opts   optSet `json:"opts"`
	Via    string `json:"via"` // lib | cli | bulk
	// stamps the source header carries besides those the correction definition
	// names (any envelope may have been stamped)
	HeadStamps [][2]string `json:"head_stamps,omitempty"`
	// Op "correct-extra": one more member in the raw options
	Extra *extraIn `json:"extra,omitempty"`
	// Op "reuse": the option values were used for another source first
	Reuse *reuseIn `json:"reuse,omitempty"`
	// stamp-option shapes: where the explicit stamps come from (stamps.go)
	Stamps *stampShape `json:"stamps_shape,omitempty"`
	// Op "after-call": what the caller does once the call has returned (aftercall.go)
	After *afterIn `json:"after,omitempty"`
}

const (
	optDate   = "2030-01-15"
	optSeries = "CORR"
	optReason = "wrong amount"
	stampVal  = "STAMP-0123456789"
)

var types = []string{"credit-note", "corrective", "debit-note", "bogus-type", ""}

// source description extracted from a parsed envelope
type srcInfo struct {
	regime    string
	addons    []string
	uuid      string
	typ       string
	series    string
	code      string
	issueDate string
	hasTotals bool
	valueDate string
	opDate    string
	isInvoice bool
	headUUID  string
}

func describe(env *gobl.Envelope) srcInfo {
	var s srcInfo
	if env.Head != nil {
		s.headUUID = env.Head.UUID.String()
	}
	inv, ok := env.Extract().(*bill.Invoice)
	if !ok {
		return s
	}
	s.isInvoice = true
	if r := inv.RegimeDef(); r != nil {
		s.regime = r.Code().String()
	}
	for _, a := range inv.AddonDefs() {
		s.addons = append(s.addons, a.Key.String())
	}
	s.uuid = inv.UUID.String()
	s.typ = inv.Type.String()
	s.series = inv.Series.String()
	s.code = inv.Code.String()
	s.issueDate = inv.IssueDate.String()
	s.hasTotals = inv.Totals != nil && inv.Totals.Taxes != nil
	if inv.ValueDate != nil {
		s.valueDate = inv.ValueDate.String()
	}
	if inv.OperationDate != nil {
		s.opDate = inv.OperationDate.String()
	}
	return s
}

// mergedDef is the correction definition as the Go API gives it (regime ⊕ addons),
// computed without calling the code under test's merge (own loop).
type mergedDef struct {
	types, exts, stamps []string
	reason, copyTax     bool
}

func goDef(env *gobl.Envelope) mergedDef {
	var m mergedDef
	inv, ok := env.Extract().(*bill.Invoice)
	if !ok {
		return m
	}
	add := func(cs tax.CorrectionSet) {
		for _, cd := range cs {
			if cd.Schema != bill.ShortSchemaInvoice {
				continue
			}
			for _, t := range cd.Types {
				m.types = append(m.types, t.String())
			}
			for _, e := range cd.Extensions {
				m.exts = append(m.exts, e.String())
			}
			for _, s := range cd.Stamps {
				m.stamps = append(m.stamps, s.String())
			}
			m.reason = m.reason || cd.ReasonRequired
			m.copyTax = m.copyTax || cd.CopyTax
			return
		}
	}
	if r := inv.RegimeDef(); r != nil {
		add(r.Corrections)
	}
	for _, a := range inv.AddonDefs() {
		add(a.Corrections)
	}
	return m
}

func extFor(m mergedDef) (string, string) {
	if len(m.exts) == 0 {
		return "", ""
	}
	k := m.exts[0]
	val := "01"
	if d := tax.ExtensionForKey(cbc.Key(k)); d != nil && len(d.Values) > 0 {
		val = d.Values[0].Code.String()
	} else if strings.Contains(k, "date") {
		val = "2024-01-01"
	}
	return k, val
}

// optionsJSON renders an option set as the JSON accepted by bill.WithData /
// `gobl correct -d` / the bulk correct action.
func optionsJSON(o optSet, m mergedDef) []byte {
	j := map[string]any{}
	if o.Type != "" {
		j["type"] = o.Type
	}
	if o.Reason {
		j["reason"] = optReason
	}
	if o.Ext {
		if k, v := extFor(m); k != "" {
			j["ext"] = map[string]string{k: v}
		}
	}
	if o.StampsOpt {
		var st []map[string]string
		for _, p := range m.stamps {
			st = append(st, map[string]string{"prv": p, "val": stampVal})
		}
		if st != nil {
			j["stamps"] = st
		}
	}
	if o.Series {
		j["series"] = optSeries
	}
	if o.Date {
		j["issue_date"] = optDate
	}
	if o.CopyTax {
		j["copy_tax"] = true
	}
	b, _ := json.Marshal(j)
	return b
}

func optionFuncs(o optSet, m mergedDef) []schema.Option {
	if o.ViaData {
		return []schema.Option{bill.WithData(optionsJSON(o, m))}
	}
	var out []schema.Option
	switch o.Type {
	case "credit-note":
		out = append(out, bill.Credit)
	case "corrective":
		out = append(out, bill.Corrective)
	case "debit-note":
		out = append(out, bill.Debit)
	case "":
	default:
		t := o.Type
		out = append(out, func(x any) { x.(*bill.CorrectionOptions).Type = cbc.Key(t) })
	}
	if o.Reason {
		out = append(out, bill.WithReason(optReason))
	}
	if o.Ext {
		if k, v := extFor(m); k != "" {
			out = append(out, bill.WithExtension(cbc.Key(k), cbc.Code(v)))
		}
	}
	if o.StampsOpt {
		var st []*head.Stamp
		for _, p := range m.stamps {
			st = append(st, &head.Stamp{Provider: cbc.Key(p), Value: stampVal})
		}
		out = append(out, bill.WithStamps(st))
	}
	if o.Series {
		out = append(out, bill.WithSeries(optSeries))
	}
	if o.Date {
		out = append(out, bill.WithIssueDate(cal.MakeDate(2030, time.January, 15)))
	}
	if o.CopyTax {
		out = append(out, bill.WithCopyTax())
	}
	return out
}

func parseEnv(data []byte) (*gobl.Envelope, error) {
	env := new(gobl.Envelope)
	if err := json.Unmarshal(data, env); err != nil {
		return nil, err
	}
	if env.Head == nil || env.Document == nil {
		return nil, fmt.Errorf("not an envelope")
	}
	return env, nil
}

// prepare parses the source and installs header stamps when asked.
func prepare(t tcase) (*gobl.Envelope, mergedDef, error) {
	env, err := parseEnv([]byte(t.Source))
	if err != nil {
		return nil, mergedDef{}, err
	}
	m := goDef(env)
	if t.Opts.StampsHead {
		for _, p := range m.stamps {
			env.Head.AddStamp(&head.Stamp{Provider: cbc.Key(p), Value: stampVal + "-H"})
		}
	}
	installHeadStamps(env, t.HeadStamps)
	return env, m, nil
}

func errClass(err error) string {
	if err == nil {
		return "ok"
	}
	s := err.Error()
	switch {
	case strings.Contains(s, "missing correction type"):
		return "missing-type"
	case strings.Contains(s, "cannot correct an invoice without a code"):
		return "no-code"
	case strings.Contains(s, "missing stamp"):
		return "missing-stamp"
	case strings.Contains(s, "invalid correction type"):
		return "type-not-allowed"
	case strings.Contains(s, "missing corrective reason"):
		return "reason-required"
	case strings.Contains(s, "document cannot be corrected"):
		return "not-correctable"
	case strings.Contains(s, "failed to unmarshal correction options"):
		return "options-data"
	}
	return "other:" + s
}

func hexOpt(s string) string {
	if s == "" {
		return "~"
	}
	return core.Hex(s)
}

func pairs(ps [][2]string) string {
	var sb strings.Builder
	fmt.Fprintf(&sb, "%d", len(ps))
	for _, p := range ps {
		fmt.Fprintf(&sb, " %s %s", core.Hex(p[0]), core.Hex(p[1]))
	}
	return sb.String()
}

const (
	freshHead = "FRESH-HEAD"
	freshDoc  = "FRESH-DOC"
)

// modelCorrectReq builds the driver request of a correction case.
func modelCorrectReq(s srcInfo, o optSet, m mergedDef, headStamps [][2]string, today string) string {
	var st [][2]string
	if o.StampsOpt {
		for _, p := range m.stamps {
			st = append(st, [2]string{p, stampVal})
		}
	}
	return modelCorrectReqStamps(s, o, m, st, headStamps, today)
}

// modelCorrectReqStamps: the same with the explicit stamps written out.
func modelCorrectReqStamps(s srcInfo, o optSet, m mergedDef, st, headStamps [][2]string, today string) string {
	var ext [][2]string
	if o.Ext {
		if k, v := extFor(m); k != "" {
			ext = append(ext, [2]string{k, v})
		}
	}
	reason, series := "", ""
	if o.Reason {
		reason = optReason
	}
	if o.Series {
		series = optSeries
	}
	date := "~"
	if o.Date {
		date = core.Hex(optDate)
	}
	bit := func(b bool) string {
		if b {
			return "1"
		}
		return "0"
	}
	addons := fmt.Sprintf("%d", len(s.addons))
	for _, a := range s.addons {
		addons += " " + core.Hex(a)
	}
	return fmt.Sprintf("correct %s %s %s %s %s %s %s %s %s %s %s %s %s %s %s %s %s %s %s %s",
		core.Hex(s.regime), addons,
		core.Hex(s.uuid), core.Hex(s.typ), core.Hex(s.series), core.Hex(s.code), core.Hex(s.issueDate), bit(s.hasTotals),
		core.Hex(o.Type), date, core.Hex(series), core.Hex(reason), bit(o.CopyTax),
		pairs(ext), pairs(st), pairs(headStamps),
		core.Hex(today), core.Hex(freshHead), core.Hex(freshDoc), bit(s.isInvoice))
}

// goCorrectLine renders the Go result in the driver's "ok …" format (fresh
// identifiers replaced by the placeholders once they are checked to be new).
func resultLine(res *gobl.Envelope, src srcInfo, extKeys ...string) (string, string) {
	inv, ok := res.Extract().(*bill.Invoice)
	if !ok {
		return "", "result document is not an invoice"
	}
	hu := res.Head.UUID.String()
	if res.Head.UUID.IsZero() || hu == src.headUUID {
		return "", "result envelope does not have a new header uuid"
	}
	du := inv.UUID.String()
	if inv.UUID.IsZero() || du == src.uuid {
		return "", "result document does not have a new uuid"
	}
	if len(inv.Preceding) != 1 || inv.Preceding[0] == nil {
		return "", fmt.Sprintf("result has %d preceding rows", len(inv.Preceding))
	}
	pre := inv.Preceding[0]
	preDate := ""
	if pre.IssueDate != nil {
		preDate = pre.IssueDate.String()
	}
	var ext [][2]string
	for k, v := range pre.Ext {
		ext = append(ext, [2]string{k.String(), v.String()})
	}
	// "extensions … may be added in the preceding or at the document level,
	// according to the local rules" (bill.CorrectionOptions.Ext): an addon
	// normaliser may move a requested extension to tax.ext (es-verifactu-v1)
	for _, k := range extKeys {
		if _, ok := pre.Ext[cbc.Key(k)]; ok || inv.Tax == nil {
			continue
		}
		if v, ok := inv.Tax.Ext[cbc.Key(k)]; ok {
			ext = append(ext, [2]string{k, v.String()})
		}
	}
	sort.Slice(ext, func(i, j int) bool { return ext[i][0] < ext[j][0] })
	var st [][2]string
	for _, s := range pre.Stamps {
		if s == nil {
			st = append(st, [2]string{"<nil>", ""})
			continue
		}
		st = append(st, [2]string{s.Provider.String(), s.Value})
	}
	tx := "0"
	if pre.Tax != nil {
		tx = "1"
	}
	return fmt.Sprintf("ok %s %d %d %s %s %s %s %s %s %s %s %s %s %s %s %s %s",
		core.Hex(freshHead), len(res.Signatures), len(res.Head.Stamps), core.Hex(freshDoc), core.Hex(inv.Code.String()),
		core.Hex(inv.Type.String()), core.Hex(inv.Series.String()), core.Hex(inv.IssueDate.String()),
		core.Hex(pre.UUID.String()), core.Hex(pre.Type.String()), core.Hex(pre.Series.String()), core.Hex(pre.Code.String()),
		core.Hex(preDate), core.Hex(pre.Reason), tx, pairs(ext), pairs(st)), ""
}

// sourceGuard remembers the source's bytes and structure.
type sourceGuard struct {
	bytes []byte
	dump  *conc.Snapshot
}

func guard(env *gobl.Envelope) sourceGuard {
	b, _ := json.Marshal(env)
	return sourceGuard{b, conc.Dump("source", env)}
}

// changed reports how the source differs now ("" = intact).
func (g sourceGuard) changed(env *gobl.Envelope) (string, []string) {
	b, _ := json.Marshal(env)
	d := conc.Dump("source", env)
	if bytes.Equal(b, g.bytes) && d.Digest == g.dump.Digest {
		return "", nil
	}
	diff := g.dump.Diff(d, 6)
	what := "deep structure"
	if !bytes.Equal(b, g.bytes) {
		what = "json.Marshal bytes and deep structure"
	}
	return what, diff
}

// onlyHeaderStamps reports whether every changed path of the source lies in
// its header stamps.
func onlyHeaderStamps(diff []string) bool {
	if len(diff) == 0 {
		return false
	}
	for _, l := range diff {
		if !strings.Contains(l, "source.Head.Stamps[") {
			return false
		}
	}
	return true
}

// aliasClassifier: named predicate over the INPUT for the listed aliasing
// finding — the source header carries a stamp that the correction definition
// requires (it is then put, by pointer, into the result's preceding row) —
// restricted to the case where only the header stamps are affected.
func aliasClassifier(t tcase, m mergedDef, diff []string) string {
	if t.Op == "correct" && t.Opts.StampsHead && len(m.stamps) > 0 && onlyHeaderStamps(diff) {
		return "c16.alias.headerStampSharedWithPreceding"
	}
	return ""
}

// overwriteClassifier: named predicate over the INPUT for the listed finding
// that Correct itself rewrites the source header's stamps — header stamps
// present and options passed as raw JSON that contains "stamps".
func overwriteClassifier(t tcase, m mergedDef, diff []string) string {
	if t.Op == "correct" && t.Opts.StampsHead && t.Opts.ViaData && t.Opts.StampsOpt && len(m.stamps) > 0 && onlyHeaderStamps(diff) {
		return "c16.sourceHeaderStampOverwrittenByDataStamps"
	}
	return ""
}

type libOutcome struct {
	class    string // ok | refusal class | other:…
	line     string // driver-format line when ok
	shapeErr string
	res      *gobl.Envelope
	panicked string
}

func runLib(c *core.Ctx, t tcase) (libOutcome, srcInfo, mergedDef, [][2]string, bool) {
	env, m, err := prepare(t)
	if err != nil {
		return libOutcome{}, srcInfo{}, m, nil, false
	}
	src := describe(env)
	var hs [][2]string
	for _, s := range env.Head.Stamps {
		hs = append(hs, [2]string{s.Provider.String(), s.Value})
	}
	g := guard(env)
	var out libOutcome
	var res *gobl.Envelope
	var cerr error
	site, msg, _ := core.ProtectSite(func() {
		if t.Op == "correct" {
			res, cerr = env.Correct(caseOptions(t, m)...)
		} else {
			res, cerr = env.Replicate()
		}
	})
	if site != "" {
		out.panicked = site + ": " + msg
		c.Fail("", fmt.Sprintf("%s panicked at %s: %s", t.Op, site, msg), t)
		return out, src, m, hs, true
	}
	if what, diff := g.changed(env); what != "" {
		c.Fail(overwriteClassifier(t, m, diff), fmt.Sprintf("%s changed the source envelope (%s): %s", t.Op, what, strings.Join(diff, " ;; ")), t)
		g = guard(env) // judge the aliasing step against the source as it is now
	}
	out.class = errClass(cerr)
	if cerr == nil {
		if res == nil || res.Head == nil || res.Document == nil {
			c.Fail("", t.Op+" returned neither an error nor a complete envelope", t)
			return out, src, m, hs, true
		}
		out.res = res
		if t.Op == "correct" {
			var ks []string
			if k, _ := extFor(m); k != "" && t.Opts.Ext {
				ks = append(ks, k)
			}
			out.line, out.shapeErr = resultLine(res, src, ks...)
		}
		// aliasing: edit every leaf of the result, the source must not notice
		rb, _ := json.Marshal(res)
		_ = rb
		n := conc.Scramble(res)
		c.Count("result-leaves-mutated", int64(n))
		if what, diff := g.changed(env); what != "" {
			c.Fail(aliasClassifier(t, m, diff), fmt.Sprintf("mutating the result of %s changed the source envelope (%s): shared memory between result and source: %s", t.Op, what, strings.Join(diff, " ;; ")), t)
		}
		// keep an unscrambled copy for the field comparison
		r2 := new(gobl.Envelope)
		if json.Unmarshal(rb, r2) == nil {
			out.res = r2
		}
	} else if res != nil {
		c.Fail("", t.Op+" returned an envelope together with an error", t)
	}
	return out, src, m, hs, true
}

func allOptSets(c *core.Ctx, perType int) []optSet {
	var out []optSet
	for _, ty := range types {
		if perType <= 0 {
			for bits := 0; bits < 256; bits++ {
				out = append(out, optSet{ty, bits&1 != 0, bits&2 != 0, bits&4 != 0, bits&8 != 0, bits&16 != 0, bits&32 != 0, bits&64 != 0, bits&128 != 0})
			}
			continue
		}
		// always: nothing, everything; then random subsets
		out = append(out, optSet{Type: ty}, optSet{ty, true, true, true, true, true, true, true, false}, optSet{ty, true, true, true, false, false, false, false, true})
		for i := 0; i < perType; i++ {
			bits := c.Rng.Intn(256)
			out = append(out, optSet{ty, bits&1 != 0, bits&2 != 0, bits&4 != 0, bits&8 != 0, bits&16 != 0, bits&32 != 0, bits&64 != 0, bits&128 != 0})
		}
	}
	return out
}

type source struct {
	name string
	data []byte
}

// sources: every example output that is an envelope, plus regime x addon
// variants of the invoices (addon added, recalculated).
func loadSources(c *core.Ctx) (invoices, others []source) {
	_, outputs, err := conc.LoadExamples(c.Repo)
	if err != nil {
		return
	}
	for _, d := range outputs {
		env, err := parseEnv(d.Data)
		if err != nil {
			continue
		}
		if _, ok := env.Extract().(*bill.Invoice); !ok {
			others = append(others, source{d.Name, d.Data})
			continue
		}
		valid := env.Validate() == nil
		if valid {
			c.Count("source.example-invoice.valid", 1)
		} else {
			c.Count("source.example-invoice.invalid(kept: Correct does not require validity)", 1)
		}
		invoices = append(invoices, source{d.Name, d.Data})
	}
	// regime x addon: add one foreign / extra addon, recalculate
	base := append([]source{}, invoices...)
	seenRegime := map[string]int{}
	for _, s := range base {
		env, _ := parseEnv(s.data)
		inv := env.Extract().(*bill.Invoice)
		rc := string(inv.GetRegime())
		if seenRegime[rc] >= 2 {
			continue
		}
		seenRegime[rc]++
		for _, ad := range tax.AllAddonDefs() {
			if ad.Key.In(inv.GetAddons()...) {
				continue
			}
			e2, _ := parseEnv(s.data)
			i2 := e2.Extract().(*bill.Invoice)
			i2.SetAddons(append(append([]cbc.Key{}, i2.GetAddons()...), ad.Key)...)
			ok := true
			if p := core.Protect(func() { ok = e2.Calculate() == nil }); p != "" || !ok {
				c.Count("source.regime-x-addon.calculation-failed(dropped)", 1)
				continue
			}
			b, _ := json.Marshal(e2)
			invoices = append(invoices, source{fmt.Sprintf("x/%s+%s", s.name, ad.Key), b})
			c.Count("source.regime-x-addon", 1)
		}
	}
	return
}

// Run is the harness entry.
func Run(c *core.Ctx) int {
	regBefore := conc.Snap()
	goblBin, err := clibin.Build(c)
	if err != nil {
		fmt.Fprintln(os.Stderr, "c16:", err)
		return 2
	}
	var rc tcase
	if c.ReplayCase(&rc) {
		runCases(c, []tcase{rc}, goblBin, true)
		return c.Finish("replay", nil)
	}
	invoices, others := loadSources(c)
	if len(invoices) == 0 {
		fmt.Fprintln(os.Stderr, "c16: no example invoices")
		return 2
	}
	var cases []tcase
	per := c.Pick(5, 0)
	shapes := shapeSources(c, invoices)
	for _, s := range shapes {
		env, err := parseEnv(s.data)
		if err != nil {
			continue
		}
		for _, o := range shapeOptSets(c, goDef(env)) {
			cases = append(cases, tcase{Op: "correct", Name: s.name, Source: string(s.data), Opts: o, Via: "lib"})
		}
	}
	for i, s := range invoices {
		sets := allOptSets(c, per)
		if c.Thorough() && strings.HasPrefix(s.name, "x/") && i%3 != 0 {
			// the full 1280-subset product on a third of the synthesised variants, a sample on the rest
			sets = allOptSets(c, 12)
		}
		for _, o := range sets {
			cases = append(cases, tcase{Op: "correct", Name: s.name, Source: string(s.data), Opts: o, Via: "lib"})
		}
		cases = append(cases, tcase{Op: "replicate", Name: s.name, Source: string(s.data), Via: "lib"})
	}
	for _, s := range others {
		cases = append(cases, tcase{Op: "correct", Name: s.name, Source: string(s.data), Opts: optSet{Type: "credit-note"}, Via: "lib"})
		cases = append(cases, tcase{Op: "replicate", Name: s.name, Source: string(s.data), Via: "lib"})
	}
	// CLI and bulk: a sample of the same cases
	nCLI := c.Pick(120, 1200)
	idx := c.Rng.Perm(len(cases))
	for k := 0; k < len(idx) && k < nCLI; k++ {
		t := cases[idx[k]]
		t.Opts.ViaData = false
		if t.Op == "correct" && k%2 == 0 {
			// half of the sample: a complete request, so that the success path is driven too
			ty := "credit-note"
			if k%4 == 2 {
				ty = "debit-note"
			}
			t.Opts = optSet{Type: ty, Reason: true, Ext: true, StampsOpt: k%4 == 0, StampsHead: k%4 != 0, Series: k%8 < 4, CopyTax: k%3 == 0}
		}
		t.Via = "cli"
		if k%3 == 0 {
			t.Via = "bulk"
		}
		cases = append(cases, t)
	}
	cases = append(cases, stampCases(c, invoices)...)
	cases = append(cases, afterCases(c, append(append([]source{}, invoices...), shapes...))...)
	cases = append(cases, reuseCases(c, append(append([]source{}, invoices...), shapes...))...)
	cases = append(cases, extraCases(c, append(append([]source{}, invoices...), shapes...))...)
	runCases(c, cases, goblBin, false)
	if after := conc.Snap(); after.Digest != regBefore.Digest {
		c.Fail("", "shared registries changed during the correct/replicate sweep: "+strings.Join(regBefore.Diff(after, 4), " ;; "), map[string]any{"diff": regBefore.Diff(after, 10)})
	}
	return c.Finish("one evaluation = one (source invoice, type, option subset) through Envelope.Correct, or one source through Envelope.Replicate, or the same through `gobl correct|replicate` / bulk; source bytes + deep structure compared before/after and after mutating the result; non-trivial = distinct (regime, addons, type, option subset, outcome class)",
		map[string]any{"skipped_outside_domain": c.Counters["skipped.outside-model-domain"]})
}

func runCases(c *core.Ctx, cases []tcase, goblBin string, verbose bool) {
	today := cal.Today().String()
	type pend struct {
		t   tcase
		out libOutcome
		src srcInfo
		m   mergedDef
	}
	var reqs []string
	var pends []pend
	var ext []tcase // cli / bulk
	var libCases []tcase
	var extraExt []tcase
	for _, t := range cases {
		if t.Op == "reuse" {
			runReuse(c, t)
			continue
		}
		if t.Op == "after-call" {
			runAfter(c, t)
			continue
		}
		if t.Op == "correct-extra" {
			if t.Via == "lib" {
				runExtraLib(c, t)
			} else {
				extraExt = append(extraExt, t)
			}
			continue
		}
		if t.Via != "lib" {
			ext = append(ext, t)
		} else {
			libCases = append(libCases, t)
		}
	}
	type libRes struct {
		out libOutcome
		src srcInfo
		m   mergedDef
		hs  [][2]string
		ok  bool
	}
	results := make([]libRes, len(libCases))
	var wg sync.WaitGroup
	next := make(chan int, 64)
	for w := 0; w < 8; w++ {
		wg.Add(1)
		go func() {
			defer wg.Done()
			for i := range next {
				out, src, m, hs, ok := runLib(c, libCases[i])
				results[i] = libRes{out, src, m, hs, ok}
			}
		}()
	}
	for i := range libCases {
		next <- i
	}
	close(next)
	wg.Wait()
	for i, t := range libCases {
		r := results[i]
		if !r.ok {
			c.Count("skipped.unparsable-source", 1)
			continue
		}
		if r.out.panicked != "" {
			continue
		}
		if t.Op == "replicate" {
			judgeReplicate(c, t, r.out, r.src, today)
			continue
		}
		reqs = append(reqs, caseModelReq(t, r.src, r.m, r.hs, today))
		pends = append(pends, pend{t, r.out, r.src, r.m})
	}
	resps, err := c.Model(reqs)
	if err != nil {
		c.TieBroken("model", err.Error(), nil)
		return
	}
	for i, p := range pends {
		model := resps[i]
		key := fmt.Sprintf("%s|%v|%s|%v|%s", p.src.regime, p.src.addons, p.t.Opts.Type, p.t.Opts, p.out.class)
		if p.t.Stamps != nil {
			key += "|" + p.t.Stamps.Label
			judgeStamps(c, p.t, p.out, p.m)
		}
		c.Eval(key, true)
		c.Count("correct.regime."+orDash(p.src.regime), 1)
		c.Count("correct.outcome."+strings.SplitN(p.out.class, ":", 2)[0], 1)
		if verbose {
			fmt.Fprintf(os.Stderr, "go:    %s %s\nmodel: %s\n", p.out.class, p.out.line, model)
		}
		if i < 3 {
			c.Sample(map[string]any{"source": p.t.Name, "opts": p.t.Opts, "go": p.out.class, "model": strings.SplitN(model, " ", 3)[:2]})
		}
		mOK := strings.HasPrefix(model, "ok ")
		mClass := "ok"
		if strings.HasPrefix(model, "err ") {
			mClass = strings.Fields(model)[1]
		} else if !mOK {
			c.TieBroken("driver", "unexpected model answer: "+model, p.t)
			continue
		}
		switch {
		case p.out.class == "ok" && !mOK:
			// property: a correction that does not meet the requirements must be refused
			c.Fail("", fmt.Sprintf("correction produced although the model refuses it (%s): %s", mClass, p.t.Name), p.t)
		case p.out.class == "ok" && mOK:
			if p.out.shapeErr != "" {
				c.Fail("", "corrected envelope: "+p.out.shapeErr, p.t)
			} else if p.out.line != model {
				c.Fail("", "corrected envelope differs from the specified shape: "+fieldDiff(model, p.out.line), p.t)
			}
		case p.out.class == "options-data":
			c.Count("skipped.outside-model-domain", 1)
		case strings.HasPrefix(p.out.class, "other:"):
			// calculation / normalisation error of the corrected document: outside the model
			if mOK {
				c.Count("skipped.outside-model-domain", 1)
				c.Count("correct.calculation-error-after-correct", 1)
			} else {
				c.TieBroken("correct/refusal", fmt.Sprintf("go: %s, model: %s", p.out.class, mClass), p.t)
			}
		case mOK:
			c.TieBroken("correct/refusal", fmt.Sprintf("refused (%s) although every modelled requirement holds: %s", p.out.class, p.t.Name), p.t)
		case p.out.class != mClass:
			c.TieBroken("correct/refusal-order", fmt.Sprintf("go refuses with %s, model with %s", p.out.class, mClass), p.t)
		}
	}
	runExternal(c, ext, goblBin, today)
	runExtraExternal(c, extraExt, goblBin)
}

func orDash(s string) string {
	if s == "" {
		return "-"
	}
	return s
}

func fieldDiff(a, b string) string {
	fa, fb := strings.Fields(a), strings.Fields(b)
	names := []string{"ok", "headUuid", "nSigs", "nHeadStamps", "docUuid", "code", "type", "series", "issueDate", "pre.uuid", "pre.type", "pre.series", "pre.code", "pre.issueDate", "pre.reason", "pre.tax", "ext/stamps…"}
	for i := 0; i < len(fa) && i < len(fb); i++ {
		if fa[i] != fb[i] {
			n := "ext/stamps…"
			if i < len(names) {
				n = names[i]
			}
			return fmt.Sprintf("%s: specified %s, got %s", n, unhex(fa[i]), unhex(fb[i]))
		}
	}
	return fmt.Sprintf("length %d vs %d", len(fa), len(fb))
}

func unhex(s string) string {
	if s == "-" {
		return `""`
	}
	var b []byte
	if _, err := fmt.Sscanf(s, "%x", &b); err == nil && len(b) > 0 {
		return fmt.Sprintf("%q", b)
	}
	return s
}

func judgeReplicate(c *core.Ctx, t tcase, out libOutcome, src srcInfo, today string) {
	c.Eval("replicate|"+src.regime+"|"+fmt.Sprint(src.addons)+"|"+out.class, src.isInvoice)
	c.Count("replicate.outcome."+strings.SplitN(out.class, ":", 2)[0], 1)
	if !src.isInvoice {
		c.Count("skipped.outside-model-domain", 1)
		c.Count("replicate.non-invoice(outside the property's quantifier)", 1)
		return
	}
	if out.class != "ok" {
		c.Count("replicate.error", 1)
		c.Count("skipped.outside-model-domain", 1)
		return
	}
	if msg := replicaShape(out.res, src, []byte(t.Source), today); msg != "" {
		c.Fail("", "replica: "+msg, t)
	}
}

// replicaShape is the property's statement about a replica, on the Go output.
func replicaShape(res *gobl.Envelope, src srcInfo, source []byte, today string) string {
	inv, ok := res.Extract().(*bill.Invoice)
	if !ok {
		return "not an invoice"
	}
	switch {
	case len(res.Signatures) != 0:
		return "has signatures"
	case len(res.Head.Stamps) != 0:
		return "has stamps"
	case res.Head.UUID.IsZero() || res.Head.UUID.String() == src.headUUID:
		return "header uuid not new"
	case inv.UUID.IsZero() || inv.UUID.String() == src.uuid:
		return "document uuid not new"
	case inv.Code != "":
		return "code kept: " + inv.Code.String()
	case inv.IssueDate.String() != today && inv.IssueDate.String() != cal.Today().String():
		return "issue date " + inv.IssueDate.String() + " is not today"
	case inv.ValueDate != nil || inv.OperationDate != nil:
		return "value / operation date kept"
	case inv.Type.String() != src.typ || inv.Series.String() != src.series:
		return "type or series changed"
	}
	// business content: parties, line items and quantities, currency
	se, err := parseEnv(source)
	if err != nil {
		return ""
	}
	sinv := se.Extract().(*bill.Invoice)
	j := func(v any) string { b, _ := json.Marshal(v); return string(b) }
	if j(sinv.Supplier) != j(inv.Supplier) || j(sinv.Customer) != j(inv.Customer) || sinv.Currency != inv.Currency {
		return "supplier / customer / currency differ from the source"
	}
	if len(sinv.Lines) != len(inv.Lines) {
		return "number of lines differs"
	}
	for i := range sinv.Lines {
		if sinv.Lines[i] == nil || inv.Lines[i] == nil {
			continue
		}
		if j(sinv.Lines[i].Item) != j(inv.Lines[i].Item) || j(sinv.Lines[i].Quantity) != j(inv.Lines[i].Quantity) {
			return fmt.Sprintf("line %d item/quantity differ", i)
		}
	}
	if len(sinv.Preceding) != len(inv.Preceding) {
		return "preceding rows differ"
	}
	return ""
}

/* ---------- CLI and bulk ---------- */

type cliError struct {
	Code    int             `json:"code"`
	Key     string          `json:"key"`
	Message string          `json:"message"`
	Fields  json.RawMessage `json:"fields"`
}

func runExternal(c *core.Ctx, cases []tcase, goblBin, today string) {
	if len(cases) == 0 {
		return
	}
	home, err := os.MkdirTemp("", "c16-home-")
	if err != nil {
		c.TieBroken("cli", err.Error(), nil)
		return
	}
	defer os.RemoveAll(home) //nolint:errcheck
	if r := clibin.Run(goblBin, home, nil, 30*time.Second, "keygen", filepath.Join(home, "key.jwk")); r.Code != 0 {
		c.TieBroken("cli", "keygen: "+r.Err, nil)
		return
	}
	var srv *clibin.Server
	for _, t := range cases {
		if t.Via == "bulk" {
			srv, err = clibin.Serve(goblBin, home, 4)
			if err != nil {
				c.TieBroken("bulk", err.Error(), nil)
				return
			}
			defer srv.Stop()
			break
		}
	}
	var wg sync.WaitGroup
	sem := make(chan struct{}, 8)
	var mu sync.Mutex
	for idx, t := range cases {
		wg.Add(1)
		sem <- struct{}{}
		go func(idx int, t tcase) {
			defer wg.Done()
			defer func() { <-sem }()
			// the library run on the same case is the reference
			env, m, err := prepare(t)
			if err != nil {
				return
			}
			src := describe(env)
			input, _ := json.Marshal(env) // with header stamps when asked
			var lres *gobl.Envelope
			var lerr error
			if p := core.Protect(func() {
				if t.Op == "correct" {
					lres, lerr = env.Correct(optionFuncs(t.Opts, m)...)
				} else {
					lres, lerr = env.Replicate()
				}
				if lerr == nil {
					lerr = lres.Validate() // the CLI validates the result
				}
			}); p != "" {
				return // reported by the library sweep
			}
			var stdout, stderr string
			code := 0
			switch t.Via {
			case "cli":
				var r clibin.Res
				if t.Op == "correct" {
					// the correction type is given either inside the options data or, for credit and
					// debit notes, by the command's own flag (every other case alternately)
					args := []string{"correct", "-d", string(optionsJSON(t.Opts, m))}
					if flag := map[string]string{"credit-note": "--credit", "debit-note": "--debit"}[t.Opts.Type]; flag != "" && (idx/4)%2 == 1 {
						o2 := t.Opts
						o2.Type = ""
						args = []string{"correct", flag, "-d", string(optionsJSON(o2, m))}
						mu.Lock()
						c.Count("via.cli.type-by-flag:"+flag, 1)
						mu.Unlock()
					}
					r = clibin.Run(goblBin, home, input, 60*time.Second, args...)
				} else {
					r = clibin.Run(goblBin, home, input, 60*time.Second, "replicate")
				}
				stdout, stderr, code = r.Out, r.Err, r.Code
				if r.TimedOut {
					mu.Lock()
					c.Fail("", "gobl "+t.Op+" hung", t)
					mu.Unlock()
					return
				}
			case "bulk":
				payload := map[string]any{"data": input}
				if t.Op == "correct" {
					payload["options"] = optionsJSON(t.Opts, m)
				}
				req, _ := json.Marshal(map[string]any{"action": t.Op, "req_id": "x", "payload": payload})
				raw, err := srv.Bulk(req, 60*time.Second)
				if err != nil {
					mu.Lock()
					c.Fail("", "POST /bulk failed: "+err.Error(), t)
					mu.Unlock()
					return
				}
				var first struct {
					Payload json.RawMessage `json:"payload"`
					Error   json.RawMessage `json:"error"`
				}
				_ = json.NewDecoder(bytes.NewReader(raw)).Decode(&first)
				if len(first.Error) > 0 && string(first.Error) != "null" {
					code, stderr = 1, string(first.Error)
				} else {
					stdout = string(first.Payload)
				}
			}
			mu.Lock()
			defer mu.Unlock()
			c.Eval(fmt.Sprintf("%s|%s|%s|%v|%v", t.Via, t.Op, src.regime, src.addons, t.Opts), true)
			c.Count("via."+t.Via+"."+t.Op, 1)
			if code != 0 {
				var ce cliError
				if json.Unmarshal([]byte(stderr), &ce) != nil || (ce.Message == "" && ce.Key == "" && len(ce.Fields) == 0) {
					c.Fail("", fmt.Sprintf("%s %s failed without a structured error: %q", t.Via, t.Op, stderr), t)
					return
				}
				if lerr == nil {
					c.TieBroken(t.Via+"/"+t.Op, fmt.Sprintf("library succeeds but %s refuses: %s", t.Via, stderr), t)
				} else if lc, cc := errClass(lerr), errClass(fmt.Errorf("%s", ce.Message)); lc != cc && !strings.HasPrefix(lc, "other:") {
					c.TieBroken(t.Via+"/"+t.Op, fmt.Sprintf("library refuses with %s, %s with %q", lc, t.Via, ce.Message), t)
				}
				c.Count("via."+t.Via+".refused", 1)
				rk := ce.Key
				if rk == "" {
					rk = errClass(fmt.Errorf("%s", ce.Message))
					if len(rk) > 60 {
						rk = rk[:60]
					}
				}
				c.Count("via.refused."+rk, 1)
				return
			}
			if lerr != nil {
				c.Fail("", fmt.Sprintf("%s %s succeeded although the library refuses (%v)", t.Via, t.Op, lerr), t)
				return
			}
			res, err := parseEnv([]byte(stdout))
			if err != nil {
				c.Fail("", fmt.Sprintf("%s %s output is not an envelope: %v", t.Via, t.Op, err), t)
				return
			}
			if t.Op == "replicate" {
				if src.isInvoice {
					if msg := replicaShape(res, src, input, today); msg != "" {
						c.Fail("", t.Via+" replica: "+msg, t)
					}
				}
				return
			}
			// same listed fields as the library result
			var ks []string
			if k, _ := extFor(m); k != "" && t.Opts.Ext {
				ks = append(ks, k)
			}
			a, e1 := resultLine(lres, src, ks...)
			b, e2 := resultLine(res, src, ks...)
			if e1 != "" || e2 != "" || a != b {
				c.Fail("", fmt.Sprintf("%s correct result differs from the library result: %s %s %s", t.Via, e1, e2, fieldDiff(a, b)), t)
			}
		}(idx, t)
	}
	wg.Wait()
}
