package c04

// DirtySpec says how a dirty input was derived from an example.
type DirtySpec struct {
	Base  string `json:"base"`
	Path  string `json:"path"`
	Kind  string `json:"kind"`
	Value string `json:"value,omitempty"`
}
