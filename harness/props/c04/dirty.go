package c04

// DIRTY-INPUT FIXPOINT.
//
// The statement speaks of "any document on which calculation succeeds", not of documents that are
// already in normal form: whatever spelling the first Calculate ACCEPTS, its result must be a
// fixpoint of serialise → parse → calculate (and validation must judge both results alike).  The
// examples are all written in normal form, so this family derives not-yet-normalised spellings from
// them, one at a time:
//
//   * every string leaf: leading / trailing / inner whitespace, tab, newline, no-break space, case
//     changes, its own prefix repeated, the country of the object (or of the supplier) put in front
//     once and twice, each separator of `-./: ` inserted, prepended, appended, exchanged for another and
//     removed, junk that normalisers strip, and values that are empty after normalisation;
//   * every amount / percentage leaf (string or JSON number): zero in several spellings, trailing zeros,
//     digits finer than written, leading zeros, explicit sign;
//   * small structures: for every collection an element is appended that is "hollow" (every leaf empty
//     after normalisation, amounts zero), whole or with a single member; and every member that some
//     object of the same kind carries somewhere in the examples is given to the objects that lack it,
//     as found and hollow.
//
// Strata are (kind of object, member, spelling); the quick tier takes a few random instances of every
// stratum (own addons and a random registered addon), the thorough tier many more.

import (
	"bytes"
	"encoding/json"
	"fmt"
	"math/big"
	"os"
	"regexp"
	"sort"
	"strings"
	"time"

	"github.com/invopop/gobl"
	"github.com/invopop/gobl/bill"
	"github.com/invopop/gobl/cbc"
	"github.com/invopop/gobl/currency"
	"github.com/invopop/gobl/org"
	"github.com/invopop/gobl/tax"

	"verifharness/internal/core"
)

// DirtySpec says how a dirty input was derived from an example.
type DirtySpec struct {
	Base  string `json:"base"`
	Path  string `json:"path"`
	Kind  string `json:"kind"`
	Addon string `json:"addon,omitempty"`
}

type dirtyMut struct {
	base    int
	path    []any // string (member) or int (index)
	parent  string
	key     string
	kind    string
	value   any  // new value
	del     bool // delete the member instead
	appendV bool // append value to the array at path
}

func (m *dirtyMut) stratum() string { return m.parent + "." + m.key + "|" + m.kind }

func pathString(p []any) string {
	var sb strings.Builder
	for _, e := range p {
		switch v := e.(type) {
		case string:
			sb.WriteString("/" + v)
		case int:
			fmt.Fprintf(&sb, "/%d", v)
		}
	}
	return sb.String()
}

func decodeTree(b []byte) (any, error) {
	dec := json.NewDecoder(bytes.NewReader(b))
	dec.UseNumber()
	var v any
	err := dec.Decode(&v)
	return v, err
}

func cloneTree(v any) any {
	switch t := v.(type) {
	case map[string]any:
		m := make(map[string]any, len(t))
		for k, e := range t {
			m[k] = cloneTree(e)
		}
		return m
	case []any:
		l := make([]any, len(t))
		for i, e := range t {
			l[i] = cloneTree(e)
		}
		return l
	}
	return v
}

// applyMut returns a copy of the tree with the mutation applied.
func applyMut(root any, m *dirtyMut) any {
	root = cloneTree(root)
	if len(m.path) == 0 {
		return root
	}
	cur := root
	for _, e := range m.path[:len(m.path)-1] {
		switch k := e.(type) {
		case string:
			cur = cur.(map[string]any)[k]
		case int:
			cur = cur.([]any)[k]
		}
	}
	last := m.path[len(m.path)-1]
	switch k := last.(type) {
	case string:
		o := cur.(map[string]any)
		switch {
		case m.del:
			delete(o, k)
		case m.appendV:
			l, _ := o[k].([]any)
			o[k] = append(append([]any{}, l...), cloneTree(m.value))
		default:
			o[k] = cloneTree(m.value)
		}
	case int:
		cur.([]any)[k] = cloneTree(m.value)
	}
	return root
}

var amountLike = regexp.MustCompile(`^-?[0-9]+(\.[0-9]+)?%?$`)

const separators = "-./: "

// spellings of a string leaf, derived from its own value.
func stringSpellings(v, country string) [][2]string {
	var out [][2]string
	add := func(kind, s string) {
		if s != v {
			out = append(out, [2]string{kind, s})
		}
	}
	r := []rune(v)
	mid := len(r) / 2
	add("ws-lead", " "+v)
	add("ws-trail", v+" ")
	if strings.Contains(v, " ") {
		add("ws-inner", strings.ReplaceAll(v, " ", "  "))
	} else if len(r) >= 2 {
		add("ws-inner", string(r[:mid])+" "+string(r[mid:]))
	}
	add("ws-tab", v+"\t")
	add("ws-newline", v+"\n")
	add("ws-nbsp", v+" ")
	add("ws-zero-width", v+"​")
	add("case-upper", strings.ToUpper(v))
	add("case-lower", strings.ToLower(v))
	if len(r) >= 1 {
		add("prefix-repeat-1", string(r[:1])+v)
	}
	if len(r) >= 2 {
		add("prefix-repeat-2", string(r[:2])+v)
		add("suffix-repeat-2", v+string(r[len(r)-2:]))
	}
	if len(r) >= 3 {
		add("prefix-repeat-3", string(r[:3])+v)
	}
	if country != "" {
		add("country-prefix", country+v)
		add("country-prefix-twice", country+country+v)
		add("country-prefix-lower", strings.ToLower(country)+v)
		add("country-prefix-sep", country+"-"+v)
	}
	for _, s := range separators {
		name := "sep" + fmt.Sprintf("%02x", s)
		if len(r) >= 2 {
			add(name+"-inner", string(r[:mid])+string(s)+string(r[mid:]))
		}
		if len(r) >= 9 {
			// every four characters
			var sb strings.Builder
			for i, c := range r {
				if i > 0 && i%4 == 0 {
					sb.WriteRune(s)
				}
				sb.WriteRune(c)
			}
			add(name+"-groups", sb.String())
		}
		add(name+"-lead", string(s)+v)
		add(name+"-trail", v+string(s))
		if strings.ContainsAny(v, separators) {
			add(name+"-exchanged", strings.Map(func(c rune) rune {
				if strings.ContainsRune(separators, c) {
					return s
				}
				return c
			}, v))
		}
	}
	if strings.ContainsAny(v, separators) {
		add("sep-removed", strings.Map(func(c rune) rune {
			if strings.ContainsRune(separators, c) {
				return -1
			}
			return c
		}, v))
	}
	add("junk-hash-trail", v+"#")
	add("junk-hash-lead", "#"+v)
	add("junk-accent", v+"é")
	add("junk-star", v+"*")
	add("junk-parens", "("+v+")")
	add("junk-underscore", v+"_")
	add("junk-comma", v+",")
	for i, e := range []string{"#", " ", "-", ".", "", "0", "  ", " "} {
		add(fmt.Sprintf("empty-after-normalisation-%d", i), e)
	}
	return out
}

// spellings of an amount or percentage written as text (with or without %).
func amountSpellings(v string) [][2]string {
	var out [][2]string
	add := func(kind, s string) {
		if s != v {
			out = append(out, [2]string{kind, s})
		}
	}
	pct := strings.HasSuffix(v, "%")
	body := strings.TrimSuffix(v, "%")
	suf := ""
	if pct {
		suf = "%"
	}
	add("amount-zero", "0"+suf)
	add("amount-zero-decimals", "0.00"+suf)
	add("amount-zero-negative", "-0"+suf)
	if strings.Contains(body, ".") {
		add("amount-trailing-zero", body+"0"+suf)
		add("amount-finer-5", body+"5"+suf)
		add("amount-finer-005", body+"005"+suf)
		add("amount-finer-49", body+"49"+suf)
	} else {
		add("amount-trailing-zero", body+".0"+suf)
		add("amount-finer-5", body+".5"+suf)
		add("amount-finer-005", body+".005"+suf)
		add("amount-finer-49", body+".0049"+suf)
	}
	add("amount-leading-zero", strings.Replace("0"+body, "0-", "-0", 1)+suf)
	if !strings.HasPrefix(body, "-") {
		add("amount-plus", "+"+body+suf)
	}
	if pct {
		add("amount-percent-spaced", body+" %")
		add("amount-percent-dropped", body)
	} else {
		add("amount-percent-added", body+"%")
	}
	return out
}

// hollow: the same structure, every leaf empty after normalisation, amounts zero.
func hollow(v any, dropPercent bool) any {
	switch t := v.(type) {
	case map[string]any:
		m := map[string]any{}
		for k, e := range t {
			if s, ok := e.(string); ok && dropPercent && strings.HasSuffix(s, "%") {
				continue
			}
			m[k] = hollow(e, dropPercent)
		}
		return m
	case []any:
		if len(t) == 0 {
			return []any{}
		}
		return []any{hollow(t[0], dropPercent)}
	case string:
		if amountLike.MatchString(t) {
			if strings.HasSuffix(t, "%") {
				return "0%"
			}
			return "0"
		}
		return "#"
	case json.Number:
		return json.Number("0")
	}
	return v
}

type catalogue map[string]map[string][]any // kind of object -> member -> up to two sample values

func (cat catalogue) learn(v any, parent string) {
	switch t := v.(type) {
	case map[string]any:
		if cat[parent] == nil {
			cat[parent] = map[string][]any{}
		}
		for k, e := range t {
			have := cat[parent][k]
			if len(have) < 2 {
				je, _ := json.Marshal(e)
				dup := false
				for _, h := range have {
					jh, _ := json.Marshal(h)
					dup = dup || bytes.Equal(jh, je)
				}
				if !dup {
					cat[parent][k] = append(have, e)
				}
			}
			cat.learn(e, k)
		}
	case []any:
		for _, e := range t {
			cat.learn(e, parent)
		}
	}
}

func countryOf(o map[string]any) string {
	if s, ok := o["country"].(string); ok {
		return s
	}
	return ""
}

// enumerate lists the mutations of one example.
func enumerate(base int, root any, cat catalogue) []*dirtyMut {
	var out []*dirtyMut
	docCountry := ""
	if r, ok := root.(map[string]any); ok {
		if s, ok := r["supplier"].(map[string]any); ok {
			if t, ok := s["tax_id"].(map[string]any); ok {
				docCountry = countryOf(t)
			}
		}
		if s, ok := r["$regime"].(string); ok && docCountry == "" {
			docCountry = s
		}
	}
	var walk func(v any, path []any, parent, key, country string)
	leaf := func(path []any, parent, key, kind string, value any) {
		out = append(out, &dirtyMut{base: base, path: append([]any{}, path...), parent: parent, key: key, kind: kind, value: value})
	}
	walk = func(v any, path []any, parent, key, country string) {
		switch t := v.(type) {
		case map[string]any:
			if c := countryOf(t); c != "" {
				country = c
			}
			keys := make([]string, 0, len(t))
			for k := range t {
				keys = append(keys, k)
			}
			sort.Strings(keys)
			for _, k := range keys {
				walk(t[k], append(path, k), key, k, country)
			}
			// members that other objects of this kind carry
			var missing []string
			for k := range cat[key] {
				if _, ok := t[k]; !ok && !strings.HasPrefix(k, "$") {
					missing = append(missing, k)
				}
			}
			sort.Strings(missing)
			for _, k := range missing {
				for i, d := range cat[key][k] {
					p := append(append([]any{}, path...), k)
					out = append(out, &dirtyMut{base: base, path: p, parent: key, key: k, kind: fmt.Sprintf("member-given-%d", i), value: d})
					if i == 0 {
						out = append(out, &dirtyMut{base: base, path: p, parent: key, key: k, kind: "member-given-hollow", value: hollow(d, false)})
						if _, leafy := d.(string); !leafy {
							out = append(out, &dirtyMut{base: base, path: p, parent: key, key: k, kind: "member-given-hollow-no-percent", value: hollow(d, true)})
						} else {
							out = append(out, &dirtyMut{base: base, path: p, parent: key, key: k, kind: "member-given-blank", value: " "})
						}
					}
				}
			}
		case []any:
			for i, e := range t {
				walk(e, append(path, i), parent, key, country)
			}
			// hollow elements
			if len(t) > 0 {
				if first, ok := t[0].(map[string]any); ok {
					add := func(kind string, v any) {
						out = append(out, &dirtyMut{base: base, path: append([]any{}, path...), parent: parent, key: key, kind: kind, value: v, appendV: true})
					}
					add("element-hollow", hollow(first, false))
					add("element-hollow-no-percent", hollow(first, true))
					add("element-empty", map[string]any{})
					add("element-repeated", first)
					// one member at a time, from everything elements of this kind carry
					var ks []string
					for k := range cat[key] {
						ks = append(ks, k)
					}
					sort.Strings(ks)
					for _, k := range ks {
						if strings.HasPrefix(k, "$") {
							continue
						}
						h := hollow(cat[key][k][0], false)
						add("element-hollow-only:"+k, map[string]any{k: h})
						if k != "amount" {
							if _, ok := cat[key]["amount"]; ok {
								add("element-hollow-zero-amount-and:"+k, map[string]any{k: h, "amount": "0"})
							}
						}
					}
				}
			}
		case string:
			if len(t) > 200 {
				return
			}
			if amountLike.MatchString(t) {
				for _, s := range amountSpellings(t) {
					leaf(path, parent, key, s[0], s[1])
				}
			}
			c := country
			if c == "" {
				c = docCountry
			}
			for _, s := range stringSpellings(t, c) {
				leaf(path, parent, key, s[0], s[1])
			}
		case json.Number:
			for _, s := range amountSpellings(t.String()) {
				if json.Valid([]byte(s[1])) && !strings.HasPrefix(s[1], "\"") {
					leaf(path, parent, key, "number-"+s[0], json.Number(s[1]))
				}
				leaf(path, parent, key, "number-as-text-"+s[0], s[1])
			}
			leaf(path, parent, key, "number-as-text", t.String())
			leaf(path, parent, key, "number-as-text-ws-trail", t.String()+" ")
		}
	}
	walk(root, nil, "", "", "")
	return out
}

// dirtyOutcome of one input.
type dirtyOutcome struct {
	accepted bool
	what     string // "" when the property holds
}

func judgeDirty(data []byte) dirtyOutcome {
	var env *gobl.Envelope
	var err error
	if pan := core.Protect(func() { env, err = build(Case{Data: data}) }); pan != "" || err != nil {
		return dirtyOutcome{}
	}
	b1, err := json.Marshal(env)
	if err != nil {
		return dirtyOutcome{accepted: true, what: "calculated envelope does not serialise: " + err.Error()}
	}
	var v1 error
	if pan := core.Protect(func() { v1 = env.Validate() }); pan != "" {
		return dirtyOutcome{accepted: true} // panics are C14's subject
	}
	var b2 []byte
	var rerr, v2 error
	pan := core.Protect(func() {
		e2 := new(gobl.Envelope)
		if rerr = json.Unmarshal(b1, e2); rerr != nil {
			rerr = fmt.Errorf("parse: %w", rerr)
			return
		}
		if rerr = e2.Calculate(); rerr != nil {
			rerr = fmt.Errorf("calculate: %w", rerr)
			return
		}
		b2, rerr = json.Marshal(e2)
		v2 = e2.Validate()
	})
	switch {
	case pan != "":
		return dirtyOutcome{accepted: true, what: "recalculation panicked: " + pan}
	case rerr != nil:
		return dirtyOutcome{accepted: true, what: "a calculated document fails to recalculate: " + rerr.Error()}
	case !bytes.Equal(b1, b2):
		return dirtyOutcome{accepted: true, what: "serialise, parse and calculate again changes the document: " + firstDiff(b1, b2)}
	case (v1 == nil) != (v2 == nil):
		return dirtyOutcome{accepted: true, what: fmt.Sprintf("validation judges the calculated document and its recalculation differently: %v vs %v", v1, v2)}
	}
	return dirtyOutcome{accepted: true}
}

// dirtyReplay judges one stored dirty input.
func dirtyReplay(c *core.Ctx, cs Case) {
	o := judgeDirty(cs.Data)
	c.Eval("dirty-replay", o.accepted)
	if o.what != "" {
		c.Fail(dirtyClassify(cs.Data, cs.Dirty), o.what, cs)
	}
}

var indexInPath = regexp.MustCompile(`/[0-9]+`)

// dirtyFamily runs the family over the example inputs.
func dirtyFamily(c *core.Ctx, examples []Case, addons []string) {
	start := time.Now()
	if p := os.Getenv("VERIF_C04_DIRTY_CLASSIFY"); p != "" { // exploration: classify the inputs of a dump
		b, _ := os.ReadFile(p)
		for _, l := range bytes.Split(b, []byte("\n")) {
			var r struct {
				Key  string          `json:"key"`
				Data json.RawMessage `json:"data"`
			}
			if json.Unmarshal(l, &r) == nil && r.Data != nil {
				o := judgeDirty(r.Data)
				fmt.Fprintf(os.Stderr, "%-40s %v %s\n", dirtyClassify(r.Data, nil), o.what != "", r.Key)
			}
		}
		return
	}
	type baseDoc struct {
		cs   Case
		root any
	}
	var bases []baseDoc
	cat := catalogue{}
	for _, cs := range examples {
		if cs.Envelope {
			continue
		}
		root, err := decodeTree(cs.Data)
		if err != nil {
			continue
		}
		if _, ok := root.(map[string]any); !ok {
			continue
		}
		bases = append(bases, baseDoc{cs, root})
		cat.learn(root, "")
	}
	strata := map[string][]*dirtyMut{}
	var names []string
	total := 0
	for i, b := range bases {
		for _, m := range enumerate(i, b.root, cat) {
			s := m.stratum()
			if _, ok := strata[s]; !ok {
				names = append(names, s)
			}
			strata[s] = append(strata[s], m)
			total++
		}
	}
	sort.Strings(names)
	c.Rng.Shuffle(len(names), func(i, j int) { names[i], names[j] = names[j], names[i] })
	c.Count("dirty:bases", int64(len(bases)))
	c.Count("dirty:strata", int64(len(names)))
	c.Count("dirty:mutations-enumerated", int64(total))
	perStratum := 1
	withAddon := 0
	if c.Thorough() {
		perStratum, withAddon = 8, 3
	}
	all := os.Getenv("VERIF_C04_DIRTY_ALL") != ""
	var dump *os.File
	if p := os.Getenv("VERIF_C04_DIRTY_DUMP"); p != "" {
		dump, _ = os.Create(p)
		defer dump.Close()
	}
	budget := 35 * time.Second
	if c.Thorough() {
		budget = 600 * time.Second
	}
	seen := map[string]bool{}
	run := func(m *dirtyMut, addon string) {
		b := bases[m.base]
		tree := applyMut(b.root, m)
		if addon != "" {
			tree.(map[string]any)["$addons"] = []any{addon}
		}
		data, err := json.Marshal(tree)
		if err != nil {
			return
		}
		o := judgeDirty(data)
		fam := m.kind
		if i := strings.IndexAny(fam, ":"); i > 0 {
			fam = fam[:i]
		}
		if !o.accepted {
			c.Count("dirty:rejected-by-first-calculate", 1)
			return
		}
		c.Count("dirty:accepted:"+fam, 1)
		if addon != "" {
			c.Count("dirty:accepted-with-other-addon", 1)
		}
		spec := &DirtySpec{Base: b.cs.Name, Path: pathString(m.path), Kind: m.kind, Addon: addon}
		c.Eval("dirty:"+spec.Base+spec.Path+"|"+spec.Kind+"|"+addon, true)
		if o.what == "" {
			return
		}
		cls := dirtyClassify(data, spec)
		if dump != nil {
			key := indexInPath.ReplaceAllString(spec.Path, "/*") + "|" + m.kind + "|" + cls
			if !seen[key] {
				seen[key] = true
				j, _ := json.Marshal(map[string]any{"key": key, "spec": spec, "what": o.what, "data": json.RawMessage(data)})
				fmt.Fprintf(dump, "%s\n", j)
			}
		}
		c.Fail(cls, "dirty input ("+spec.Kind+" at "+spec.Path+" of "+filepath_base(spec.Base)+"): "+o.what, Case{Name: "dirty:" + spec.Base + spec.Path + "|" + spec.Kind, Data: data, Dirty: spec})
	}
	for _, s := range names {
		if !all && time.Since(start) > budget {
			c.Count("dirty:strata-not-reached-within-budget", 1)
			continue
		}
		ms := strata[s]
		n, na := perStratum, withAddon
		if all {
			n, na = len(ms), 0
		}
		for k := 0; k < n && k < len(ms); k++ {
			j := k + c.Rng.Intn(len(ms)-k)
			ms[k], ms[j] = ms[j], ms[k]
			if !c.Thorough() && !all && len(addons) > 0 && c.Rng.Intn(3) == 0 {
				run(ms[k], addons[c.Rng.Intn(len(addons))]) // quick tier: a third of the picks under another addon
			} else {
				run(ms[k], "")
			}
		}
		for k := 0; k < na && len(addons) > 0; k++ {
			run(ms[c.Rng.Intn(len(ms))], addons[c.Rng.Intn(len(addons))])
		}
	}
	c.Note("dirty-input family: %d mutations of %d examples in %d strata enumerated, %.1fs", total, len(bases), len(names), time.Since(start).Seconds())
}

func filepath_base(p string) string {
	if i := strings.LastIndex(p, "/"); i >= 0 {
		return p[i+1:]
	}
	return p
}

// ---- classifiers of known findings: predicates over the input -----------------------------------

// objectsUnder calls f for every object that sits under the member `key` (directly or as an element of
// the array under it), anywhere in the tree.
func objectsUnder(v any, key string, f func(o map[string]any)) {
	var walk func(v any, under string)
	walk = func(v any, under string) {
		switch t := v.(type) {
		case map[string]any:
			if under == key {
				f(t)
			}
			for k, e := range t {
				walk(e, k)
			}
		case []any:
			for _, e := range t {
				walk(e, under)
			}
		}
	}
	walk(v, "")
}

// significantDecimalsOf: digits after the point up to the last one that is not zero.
func significantDecimalsOf(v any) (int, bool) {
	d, ok := decimalsOf(v)
	if !ok || d == 0 {
		return d, ok
	}
	var s string
	switch t := v.(type) {
	case string:
		s = t
	case json.Number:
		s = t.String()
	}
	s = strings.TrimSpace(strings.TrimSuffix(strings.TrimSpace(s), "%"))
	for d > 0 && strings.HasSuffix(s, "0") {
		s, d = s[:len(s)-1], d-1
	}
	return d, true
}

// decimalsOf: digits written after the point of an amount given as text or as a JSON number.
func decimalsOf(v any) (int, bool) {
	var s string
	switch t := v.(type) {
	case string:
		s = t
	case json.Number:
		s = t.String()
	default:
		return 0, false
	}
	s = strings.TrimSpace(strings.TrimSuffix(strings.TrimSpace(s), "%"))
	if !amountLike.MatchString(s) {
		return 0, false
	}
	if i := strings.Index(s, "."); i >= 0 {
		return len(s) - i - 1, true
	}
	return 0, true
}

func isZeroAmount(v any) bool {
	if v == nil {
		return true
	}
	var s string
	switch t := v.(type) {
	case string:
		s = t
	case json.Number:
		s = t.String()
	default:
		return false
	}
	return strings.Trim(strings.TrimSuffix(strings.TrimSpace(s), "%"), "+-0. ") == "" && s != ""
}

// fixedAmountFinerThanPresentedJSON: the known finding fixed-amount-finer-than-presented read off the
// JSON input: a fixed (not percentage-derived) discount / charge / advance amount, or a charge rate,
// written with more decimals than the figure is presented with (the currency for document rows and
// advances, the finer of currency and item price for line rows).
func fixedAmountFinerThanPresentedJSON(root any, subunits int) bool {
	found := false
	fixedFiner := func(o map[string]any, e int) {
		if d, ok := significantDecimalsOf(o["rate"]); ok && d > e {
			found = true
		}
		if _, hasRate := o["rate"]; hasRate {
			return
		}
		if o["percent"] != nil && !isZeroAmount(o["percent"]) {
			return
		}
		if d, ok := significantDecimalsOf(o["amount"]); ok && d > e {
			found = true
		}
	}
	lineLike := func(l map[string]any) {
		e := subunits
		if it, ok := l["item"].(map[string]any); ok {
			if d, ok := decimalsOf(it["price"]); ok && d > e {
				e = d
			}
		}
		for _, k := range []string{"discounts", "charges"} {
			if arr, ok := l[k].([]any); ok {
				for _, x := range arr {
					if o, ok := x.(map[string]any); ok {
						fixedFiner(o, e)
					}
				}
			}
		}
	}
	objectsUnder(root, "lines", lineLike)
	objectsUnder(root, "breakdown", lineLike)
	if r, ok := root.(map[string]any); ok {
		for _, k := range []string{"discounts", "charges"} {
			if arr, ok := r[k].([]any); ok {
				for _, x := range arr {
					if o, ok := x.(map[string]any); ok {
						fixedFiner(o, subunits)
					}
				}
			}
		}
	}
	objectsUnder(root, "advances", func(o map[string]any) { fixedFiner(o, subunits) })
	return found
}

// hollowLineAdjustment: a discount or charge of a line (or of a breakdown row) that is not empty as
// written but is empty once its own members are normalised and presented (code that normalises to
// nothing, extensions with empty values, an amount that rounds to zero): Line.Normalize drops empty rows
// BEFORE it normalises them, so the row survives the first calculation and is dropped by the second.
func hollowLineAdjustment(root any, ns tax.Normalizers, subunits uint32) bool {
	found := false
	rows := func(l map[string]any) {
		if arr, ok := l["discounts"].([]any); ok {
			for _, x := range arr {
				b, _ := json.Marshal(x)
				d := new(bill.LineDiscount)
				if json.Unmarshal(b, d) != nil || d.IsEmpty() {
					continue
				}
				_ = core.Protect(func() { d.Normalize(ns) })
				d.Amount = d.Amount.Rescale(subunits)
				found = found || d.IsEmpty()
			}
		}
		if arr, ok := l["charges"].([]any); ok {
			for _, x := range arr {
				b, _ := json.Marshal(x)
				d := new(bill.LineCharge)
				if json.Unmarshal(b, d) != nil || d.IsEmpty() {
					continue
				}
				_ = core.Protect(func() { d.Normalize(ns) })
				d.Amount = d.Amount.Rescale(subunits)
				found = found || d.IsEmpty()
			}
		}
	}
	objectsUnder(root, "lines", rows)
	objectsUnder(root, "breakdown", rows)
	return found
}

// storedTaxBaseCoarserThanCurrency: a stored tax summary (of a document reference: payment lines,
// preceding documents) with a rate whose base is written with fewer decimals than the currency has:
// tax.Total.Calculate multiplies at the precision of the stored base and only then rescales the base, so
// the tax of that rate (base x percent) is cut to the decimals of the base the first time and computed
// with the decimals of the currency the next time; the predicate asks that the two differ (the product is
// not a whole number of units of the written precision).
func storedTaxBaseCoarserThanCurrency(root any, subunits int) bool {
	found := false
	objectsUnder(root, "tax", func(t map[string]any) {
		objectsUnder(t, "rates", func(r map[string]any) {
			d, ok := decimalsOf(r["base"])
			if !ok || d >= subunits {
				return
			}
			text := func(v any) string {
				switch t := v.(type) {
				case string:
					return strings.TrimSpace(strings.TrimSuffix(strings.TrimSpace(t), "%"))
				case json.Number:
					return t.String()
				}
				return ""
			}
			base, ok1 := new(big.Rat).SetString(text(r["base"]))
			pct, ok2 := new(big.Rat).SetString(text(r["percent"]))
			if !ok1 || !ok2 {
				return
			}
			if s, isText := r["percent"].(string); !isText || !strings.Contains(s, "%") {
				pct.Mul(pct, big.NewRat(100, 1)) // a factor, not a percentage
			}
			// the tax of this rate, in units of the precision the base is written with
			p := new(big.Rat).Mul(base, pct)
			p.Mul(p, big.NewRat(1, 100))
			for i := 0; i < d; i++ {
				p.Mul(p, big.NewRat(10, 1))
			}
			if !p.IsInt() {
				found = true
			}
		})
	})
	return found
}

// tbaiRegionNotTrimmed: es-tbai-v1, no es-tbai-region given, and the region of the supplier's first
// address written with surrounding white space: the addon reads the region before the address is
// normalised.
func tbaiRegionNotTrimmed(root any) bool {
	r, ok := root.(map[string]any)
	if !ok {
		return false
	}
	has := false
	for _, a := range addonsOf(r) {
		has = has || a == "es-tbai-v1"
	}
	if !has {
		return false
	}
	if t, ok := r["tax"].(map[string]any); ok {
		if e, ok := t["ext"].(map[string]any); ok && e["es-tbai-region"] != nil {
			return false
		}
	}
	s, _ := r["supplier"].(map[string]any)
	as, _ := s["addresses"].([]any)
	if len(as) == 0 {
		return false
	}
	a, _ := as[0].(map[string]any)
	reg, _ := a["region"].(string)
	return strings.TrimSpace(reg) != reg
}

// normaliserNotIdempotentAt: some object under the member `key` (an inbox, an identity) is changed by a
// second run of its own Normalize (with the normalisers of the document's regime and addons).
func normaliserNotIdempotentAt[T any, PT interface {
	*T
	Normalize(tax.Normalizers)
}](root any, key string, ns tax.Normalizers) bool {
	found := false
	objectsUnder(root, key, func(o map[string]any) {
		b, _ := json.Marshal(o)
		v := PT(new(T))
		if json.Unmarshal(b, v) != nil {
			return
		}
		var b1, b2 []byte
		_ = core.Protect(func() {
			v.Normalize(ns)
			b1, _ = json.Marshal(v)
			v.Normalize(ns)
			b2, _ = json.Marshal(v)
		})
		if !bytes.Equal(b1, b2) {
			found = true
		}
	})
	return found
}

// emptyExtensionValue: some `ext` object of the input holds a member whose value is empty once it is
// normalised ("", blanks, separators only).  Normalisers that supply a default for an extension when
// its key is ABSENT (tax.Extensions.Has looks at the key, not at the value) see the key and skip the
// default; the empty member is cleaned away afterwards, so the second calculation supplies the default.
func emptyExtensionValue(root any) bool {
	found := false
	objectsUnder(root, "ext", func(o map[string]any) {
		for _, v := range o {
			if s, ok := v.(string); ok && cbc.NormalizeCode(cbc.Code(s)) == "" {
				found = true
			}
		}
	})
	return found
}

func dirtyClassify(data []byte, spec *DirtySpec) string {
	root, err := decodeTree(data)
	if err != nil {
		return ""
	}
	var env *gobl.Envelope
	if pan := core.Protect(func() { env, err = build(Case{Data: data}) }); pan != "" || err != nil || env == nil {
		return ""
	}
	sub := 2
	var ns tax.Normalizers
	_ = core.Protect(func() {
		doc := env.Extract()
		ns = tax.ExtractNormalizers(doc)
		if cd, ok := doc.(interface{ GetCurrency() currency.Code }); ok {
			if def := cd.GetCurrency().Def(); def != nil {
				sub = int(def.Subunits)
			}
		} else {
			var cur struct {
				Currency currency.Code `json:"currency"`
			}
			if b, err := json.Marshal(doc); err == nil && json.Unmarshal(b, &cur) == nil {
				if def := cur.Currency.Def(); def != nil {
					sub = int(def.Subunits)
				}
			}
		}
	})
	switch {
	case customerRatesWithAddon(data):
		return "c04.customerRatesThenCountryNormaliser"
	case fixedAmountFinerThanPresentedJSON(root, sub):
		return "c04.fixedAmountFinerThanPresented"
	case hollowLineAdjustment(root, ns, uint32(sub)):
		return "c04.hollowLineAdjustment"
	case storedTaxBaseCoarserThanCurrency(root, sub):
		return "c04.storedTaxBaseCoarserThanCurrency"
	case tbaiRegionNotTrimmed(root):
		return "c04.tbaiRegionNotTrimmed"
	case emptyExtensionValue(root):
		return "c04.emptyExtensionValueSuppressesDefault"
	case normaliserNotIdempotentAt[org.Inbox](root, "inboxes", ns):
		return "c04.inboxNormaliserNotIdempotent"
	case normaliserNotIdempotentAt[org.Identity](root, "identities", ns):
		return "c04.identityNormaliserNotIdempotent"
	}
	return ""
}
