package c04

// VALIDATING AN EDITED ENVELOPE.
//
// "validating, digesting, verifying or extracting never changes an envelope" is stated of any envelope,
// not only of one that validates: relation (2) of Run looks at freshly calculated envelopes, on which
// every normaliser has just run and has nothing left to do.  An envelope whose document was edited after
// calculation (a derived member removed or altered — what C08 presents) is where a validator that repairs,
// fills in or sorts what it looks at shows.  For every example: each member of every `ext`, and a random
// handful of other members of the document, removed and (string leaves) altered, one at a time; the bytes
// json.Marshal gives for the envelope after json.Unmarshal must be the bytes it gives after Validate,
// Digest, Verify and Extract, whatever Validate returns.

import (
	"bytes"
	"encoding/json"
	"fmt"
	"sort"

	"github.com/invopop/gobl"

	"verifharness/internal/core"
)

type memberAt struct {
	parent map[string]any
	key    string
	path   string
	ext    bool
}

func membersOf(v any, path string, inExt bool, out *[]memberAt) {
	switch x := v.(type) {
	case map[string]any:
		keys := make([]string, 0, len(x))
		for k := range x {
			keys = append(keys, k)
		}
		sort.Strings(keys)
		for _, k := range keys {
			*out = append(*out, memberAt{x, k, path + "/" + k, inExt || k == "ext"})
			membersOf(x[k], path+"/"+k, k == "ext", out)
		}
	case []any:
		for i, e := range x {
			membersOf(e, fmt.Sprintf("%s/#%d", path, i), false, out)
		}
	}
}

// validateUnchanged: read the text, validate / digest / verify / extract; "" or how the envelope changed.
func validateUnchanged(text []byte) (diff string, read bool) {
	e := new(gobl.Envelope)
	var before, after []byte
	pan := core.Protect(func() {
		if json.Unmarshal(text, e) != nil {
			return
		}
		read = true
		before, _ = json.Marshal(e)
		_ = core.Protect(func() { _ = e.Validate() }) // panics are C14's subject
		_ = core.Protect(func() { _, _ = e.Digest() })
		_ = core.Protect(func() { _ = e.Verify() })
		_ = core.Protect(func() { _ = e.Extract() })
		after, _ = json.Marshal(e)
	})
	if pan != "" || !read || before == nil || after == nil || bytes.Equal(before, after) {
		return "", read
	}
	return firstDiff(before, after), true
}

func tamperedValidate(c *core.Ctx, cs Case, b1 []byte) {
	dec := json.NewDecoder(bytes.NewReader(b1))
	dec.UseNumber()
	var root map[string]any
	if dec.Decode(&root) != nil {
		return
	}
	doc, _ := root["doc"].(map[string]any)
	if doc == nil {
		return
	}
	var ms []memberAt
	membersOf(doc, "doc", false, &ms)
	var pick []memberAt
	var rest []memberAt
	for _, m := range ms {
		if m.ext {
			pick = append(pick, m)
		} else {
			rest = append(rest, m)
		}
	}
	for i, n := 0, c.Pick(6, 60); i < n && len(rest) > 0; i++ {
		pick = append(pick, rest[c.Rng.Intn(len(rest))])
	}
	for _, m := range pick {
		old := m.parent[m.key]
		variants := []struct {
			what string
			do   func()
		}{{"removed", func() { delete(m.parent, m.key) }}}
		if s, ok := old.(string); ok {
			variants = append(variants, struct {
				what string
				do   func()
			}{"altered", func() { m.parent[m.key] = s + "0" }})
		}
		for _, v := range variants {
			v.do()
			text, err := json.Marshal(root)
			m.parent[m.key] = old
			if err != nil {
				continue
			}
			diff, read := validateUnchanged(text)
			if !read {
				c.Count("tampered-validate:not-read", 1)
				continue
			}
			c.Count("tampered-validate", 1)
			if m.ext {
				c.Count("tampered-validate:ext-member", 1)
			}
			c.Eval("tampered:"+cs.Name+":"+m.path+":"+v.what, true)
			if diff != "" {
				c.Fail("", fmt.Sprintf("validate/digest/verify/extract changed an envelope whose document was edited after calculation (%s %s): %s", m.path, v.what, diff),
					Case{Name: cs.Name, Envelope: true, Data: text, Tampered: m.path + " " + v.what})
			}
		}
	}
}
