package c04

// History independence and combination families.
//
// The statement quantifies over histories ("regardless of process, repetition …") and over "every
// regime/addon combination":
//
//   * addonCombinations: every example invoice that declares addons, with every other registered addon
//     put before and after the declared ones (two addons that both write to the same object meet);
//   * transplants: the lines, discounts and charges of every other example invoice of the same
//     directory appended to an example (elements of one collection that differ in rate, extension,
//     item … meet in one document);
//   * historyIndependence: what a document calculates to does not depend on what the process
//     calculated before — every pooled input is calculated again after everything else was, and once
//     more by a fresh process in the reverse order; the three results are the same bytes.  When they
//     are not, a fresh process looks for the single earlier document that changes the result and the
//     pair is the witness.

import (
	"bufio"
	"bytes"
	"crypto/sha256"
	"encoding/json"
	"fmt"
	"os"
	"os/exec"
	"path/filepath"
	"strconv"
	"strings"

	"github.com/invopop/gobl"

	"verifharness/internal/core"
)

func addonsOf(m map[string]any) []string {
	var out []string
	if l, ok := m["$addons"].([]any); ok {
		for _, a := range l {
			if s, ok := a.(string); ok {
				out = append(out, s)
			}
		}
	}
	return out
}

// addonCombinations: declared addons of an example with one more addon before / after them.
func addonCombinations(invoices []Case, addons []string) []Case {
	var out []Case
	for _, cs := range invoices {
		var m map[string]any
		if json.Unmarshal(cs.Data, &m) != nil {
			continue
		}
		have := addonsOf(m)
		if len(have) == 0 {
			continue
		}
		for _, a := range addons {
			dup := false
			for _, h := range have {
				dup = dup || h == a
			}
			if dup {
				continue
			}
			for pos, list := range [][]string{append([]string{a}, have...), append(append([]string{}, have...), a)} {
				m["$addons"] = list
				b, _ := json.Marshal(m)
				out = append(out, Case{Name: fmt.Sprintf("%s+%s@%d", cs.Name, a, pos), Data: b})
			}
		}
	}
	return out
}

// transplants: A's collections extended by those of B, for every ordered pair of example invoices of
// one directory.
func transplants(invoices []Case) []Case {
	var out []Case
	for _, a := range invoices {
		for _, b := range invoices {
			if a.Name == b.Name || filepath.Dir(a.Name) != filepath.Dir(b.Name) {
				continue
			}
			var ma, mb map[string]any
			if json.Unmarshal(a.Data, &ma) != nil || json.Unmarshal(b.Data, &mb) != nil {
				continue
			}
			moved := 0
			for _, k := range []string{"lines", "discounts", "charges"} {
				la, _ := ma[k].([]any)
				lb, _ := mb[k].([]any)
				if len(lb) == 0 {
					continue
				}
				var joined []any
				for _, e := range append(append([]any{}, la...), lb...) {
					if o, ok := e.(map[string]any); ok {
						delete(o, "i") // the index is assigned by the calculation
					}
					joined = append(joined, e)
				}
				ma[k] = joined
				moved += len(lb)
			}
			if moved == 0 {
				continue
			}
			d, _ := json.Marshal(ma)
			out = append(out, Case{Name: a.Name + "&" + filepath.Base(b.Name), Data: d})
		}
	}
	return out
}

// sig identifies the outcome of a calculation: digest and the bytes of the document.
func sig(env *gobl.Envelope) string {
	b, err := json.Marshal(env.Document)
	if err != nil {
		return "unserialisable: " + err.Error()
	}
	dig := ""
	if env.Head != nil && env.Head.Digest != nil {
		dig = env.Head.Digest.Value
	}
	return fmt.Sprintf("%s %x", dig, sha256.Sum256(b))
}

func sigOf(cs Case) string {
	var env *gobl.Envelope
	var err error
	if pan := core.Protect(func() { env, err = build(cs) }); pan != "" {
		return "panic"
	}
	if err != nil {
		return "error"
	}
	return sig(env)
}

type histInput struct {
	Envelope bool            `json:"envelope"`
	Data     json.RawMessage `json:"data"`
}

func histLines(cases []Case) []byte {
	var buf bytes.Buffer
	for _, cs := range cases {
		var compact bytes.Buffer
		if json.Compact(&compact, cs.Data) != nil {
			compact.Reset()
			compact.WriteString("null")
		}
		b, _ := json.Marshal(histInput{Envelope: cs.Envelope, Data: compact.Bytes()})
		buf.Write(b)
		buf.WriteByte('\n')
	}
	return buf.Bytes()
}

// historyWorker (VERIF_C04_WORKER=inputs): calculate every input line in order, print its outcome.
// (VERIF_C04_WORKER=probe): the first line is the subject; after each further line the subject is
// calculated again; prints the index of the first line after which the subject's outcome differs from
// what it was at the start (-1: none).
func historyWorker(mode string) int {
	sc := bufio.NewScanner(os.Stdin)
	sc.Buffer(make([]byte, 1<<20), 1<<28)
	w := bufio.NewWriter(os.Stdout)
	defer w.Flush()
	read := func() (Case, bool) {
		if !sc.Scan() {
			return Case{}, false
		}
		var in histInput
		_ = json.Unmarshal(sc.Bytes(), &in)
		return Case{Envelope: in.Envelope, Data: in.Data}, true
	}
	if mode == "probe" {
		subject, ok := read()
		if !ok {
			return 2
		}
		s0 := sigOf(subject)
		for i := 0; ; i++ {
			cs, ok := read()
			if !ok {
				break
			}
			_ = sigOf(cs)
			if sigOf(subject) != s0 {
				fmt.Fprintf(w, "%d\n", i)
				return 0
			}
		}
		fmt.Fprintln(w, -1)
		return 0
	}
	for {
		cs, ok := read()
		if !ok {
			break
		}
		fmt.Fprintln(w, sigOf(cs))
	}
	return 0
}

func runWorker(c *core.Ctx, mode string, stdin []byte) ([]string, error) {
	cmd := exec.Command(os.Args[0], "-root", c.Root, "-repo", c.Repo, "-model", c.ModelBin, "C04")
	cmd.Env = append(os.Environ(), "VERIF_C04_WORKER="+mode, "GOMAXPROCS=2")
	cmd.Stdin = bytes.NewReader(stdin)
	out, err := cmd.Output()
	if err != nil {
		return nil, err
	}
	return strings.Split(strings.TrimSpace(string(out)), "\n"), nil
}

// alone / after: the outcome of the subject in a fresh process, on its own and after the history.
func freshOutcomes(c *core.Ctx, subject Case, history []Case) (alone, after string, err error) {
	a, err := runWorker(c, "inputs", histLines([]Case{subject}))
	if err != nil || len(a) != 1 {
		return "", "", fmt.Errorf("worker: %v", err)
	}
	b, err := runWorker(c, "inputs", histLines(append(append([]Case{}, history...), subject)))
	if err != nil || len(b) != len(history)+1 {
		return "", "", fmt.Errorf("worker: %v", err)
	}
	return a[0], b[len(b)-1], nil
}

// historyWitness: reduce "the subject's outcome depends on what was calculated before" to one earlier
// document, and report it.
func historyWitness(c *core.Ctx, subject Case, pool []Case, seen string) {
	hist := pool
	if idx, err := runWorker(c, "probe", histLines(append([]Case{subject}, pool...))); err == nil && len(idx) == 1 {
		if i, err := strconv.Atoi(idx[0]); err == nil && i >= 0 && i < len(pool) {
			if alone, after, err := freshOutcomes(c, subject, pool[i:i+1]); err == nil && alone != after {
				hist = pool[i : i+1]
			} else {
				hist = pool[:i+1]
			}
		}
	}
	var h []json.RawMessage
	names := []string{}
	for _, p := range hist {
		b, _ := json.Marshal(histInput{Envelope: p.Envelope, Data: p.Data})
		h = append(h, b)
		if len(names) < 3 {
			names = append(names, p.Name)
		}
	}
	c.Fail("", fmt.Sprintf("what a document calculates to depends on what the process calculated before (%s): %s is calculated to other bytes after %d earlier document(s) %v than on its own in a fresh process", seen, subject.Name, len(hist), names),
		Case{Name: "history:" + subject.Name, Envelope: subject.Envelope, Data: subject.Data, History: h})
}

// historyReplay judges one (history, subject) pair in fresh processes.
func historyReplay(c *core.Ctx, cs Case) {
	var hist []Case
	for _, h := range cs.History {
		var in histInput
		if json.Unmarshal(h, &in) == nil {
			hist = append(hist, Case{Envelope: in.Envelope, Data: in.Data})
		}
	}
	subject := Case{Name: cs.Name, Envelope: cs.Envelope, Data: cs.Data}
	alone, after, err := freshOutcomes(c, subject, hist)
	if err != nil {
		c.TieBroken("drive:C04/history-worker", err.Error(), nil)
		return
	}
	c.Eval("history-replay", true)
	if alone != after {
		c.Fail("", fmt.Sprintf("what a document calculates to depends on what the process calculated before: alone %s, after %d earlier document(s) %s", alone, len(hist), after), cs)
	}
}

// historyIndependence: pool[i] was calculated to first[i] in the course of the run.
func historyIndependence(c *core.Ctx, pool []Case, first []string) {
	if len(pool) == 0 {
		return
	}
	// (a) again, in this process, after everything else was calculated
	for i, cs := range pool {
		c.Count("history:recalculated-at-the-end", 1)
		if s := sigOf(cs); s != first[i] {
			historyWitness(c, cs, pool, "the same input calculated twice in one process gives different bytes")
			return
		}
	}
	// (b) a fresh process, the reverse order
	rev := make([]Case, len(pool))
	for i, cs := range pool {
		rev[len(pool)-1-i] = cs
	}
	got, err := runWorker(c, "inputs", histLines(rev))
	if err != nil || len(got) != len(pool) {
		c.TieBroken("drive:C04/history-worker", fmt.Sprintf("second process failed: %v (%d of %d lines)", err, len(got), len(pool)), nil)
		return
	}
	for i, cs := range pool {
		c.Count("history:fresh-process-reverse-order", 1)
		if g := got[len(pool)-1-i]; g != first[i] {
			// which of the two processes had the history that matters?
			if alone, _, err := freshOutcomes(c, cs, nil); err == nil && alone != first[i] {
				historyWitness(c, cs, pool, "a fresh process calculating the inputs in the reverse order gives different bytes")
			} else {
				historyWitness(c, cs, rev, "a fresh process calculating the inputs in the reverse order gives different bytes")
			}
			return
		}
	}
}
