package c04

import (
	"encoding/json"
	"fmt"
	"math/rand"
	"strings"

	"verifharness/internal/core"
)

// The customer-rates family.  With the `customer-rates` tag the customer's tax
// country is copied to every tax combo of lines, discounts and charges — inside
// calculate(), AFTER Invoice/Order/Delivery.Normalize ran the normalisers.  The
// normalisers of regimes and addons that look at a combo's country (PT:
// pt-region, pt-saft-v1: pt-saft-tax-rate) therefore see no country in the
// first calculation and the customer's in the next: the stored document is not
// a fixpoint (known finding c04.customerRatesThenCountryNormaliser, classifier
// customerRatesWithAddon).  Documents of the three billable types, suppliers in
// PT and ES with and without pt-saft-v1 / es-verifactu-v1, customers with and
// without a tax identity in a spread of countries (GR is rewritten to EL by the
// Greek regime), combos with a rate key or a percentage, sometimes with a
// country or region of their own.
//
// Judged like every other case (three serialise / parse / calculate rounds,
// bytes and digests; a failure is the known finding when the classifier holds
// for the input).  In addition:
//   - the SECOND calculation must be a fixpoint whatever the first one was
//     (third = second: `pt_later_calculations_fixpoint`);
//   - for regime PT with no addon or pt-saft-v1, tied to
//     Model/CustomerRates.lean: country, pt-region and pt-saft-tax-rate of
//     every combo after one and after two Calculates are what the model's
//     `pass` gives, and the document with the customer's country written on
//     every combo by hand calculates to what the model's `passAlt` gives
//     (`repair_is_todays_explicit_country`).

// CRCombo is one tax combo of a generated document.
type CRCombo struct {
	Cat     string `json:"cat"`
	Country string `json:"country,omitempty"`
	Rate    string `json:"rate,omitempty"`
	Percent string `json:"percent,omitempty"`
	Region  string `json:"region,omitempty"` // ext pt-region as given
}

// CRSpec is what a customer-rates case was generated from (kept in the replay).
type CRSpec struct {
	Schema    string      `json:"schema"` // invoice | order | delivery
	Regime    string      `json:"regime"` // supplier country: PT | ES
	Addons    []string    `json:"addons"`
	Tagged    bool        `json:"tagged"`
	Customer  string      `json:"customer"` // "none" | "noid" | country
	Lines     [][]CRCombo `json:"lines"`
	Discounts [][]CRCombo `json:"discounts"`
	Charges   [][]CRCombo `json:"charges"`
}

var crCustomers = []string{"NL", "PT", "ES", "GR", "EL", "FR", "DE", "XI", "noid", "none"}

func crCombo(r *rand.Rand, regime string) CRCombo {
	c := CRCombo{Cat: "VAT"}
	switch r.Intn(4) {
	case 0:
		c.Rate = "reduced"
	case 1:
		c.Percent = "23%"
	default:
		c.Rate = "standard"
	}
	if r.Intn(8) == 0 {
		c.Country = []string{"ES", "PT", "NL"}[r.Intn(3)]
	}
	if regime == "PT" && r.Intn(6) == 0 {
		c.Region = "PT-AC"
	}
	return c
}

func crRows(r *rand.Rand, regime string, lo, hi int) [][]CRCombo {
	n := lo + r.Intn(hi-lo+1)
	rows := make([][]CRCombo, n)
	for i := range rows {
		k := 1
		if r.Intn(5) == 0 {
			k = 2
		}
		for j := 0; j < k; j++ {
			rows[i] = append(rows[i], crCombo(r, regime))
		}
		if k == 2 {
			// two combos of one row must differ in category
			if regime == "ES" {
				rows[i][1] = CRCombo{Cat: "IRPF", Percent: "15%"}
			} else {
				rows[i] = rows[i][:1]
			}
		}
	}
	return rows
}

// crSpecs: a deterministic grid over schema x regime/addon x customer (one
// standard-rate line, tagged) followed by random documents.
func crSpecs(r *rand.Rand, random int) []CRSpec {
	var out []CRSpec
	setups := []struct {
		regime string
		addons []string
	}{
		{"PT", nil}, {"PT", []string{"pt-saft-v1"}}, {"ES", nil}, {"ES", []string{"es-verifactu-v1"}},
	}
	schemas := []string{"invoice", "order", "delivery"}
	for _, sc := range schemas {
		for _, su := range setups {
			for _, cu := range crCustomers {
				out = append(out, CRSpec{Schema: sc, Regime: su.regime, Addons: su.addons, Tagged: true, Customer: cu,
					Lines: [][]CRCombo{{{Cat: "VAT", Rate: "standard"}}}})
			}
		}
	}
	for i := 0; i < random; i++ {
		su := setups[r.Intn(len(setups))]
		s := CRSpec{Schema: schemas[r.Intn(3)], Regime: su.regime, Addons: su.addons, Tagged: r.Intn(6) != 0,
			Customer: crCustomers[r.Intn(len(crCustomers))]}
		s.Lines = crRows(r, su.regime, 1, 3)
		s.Discounts = crRows(r, su.regime, 0, 1)
		s.Charges = crRows(r, su.regime, 0, 1)
		out = append(out, s)
	}
	return out
}

func crTaxes(cs []CRCombo) []map[string]any {
	var out []map[string]any
	for _, c := range cs {
		m := map[string]any{"cat": c.Cat}
		if c.Country != "" {
			m["country"] = c.Country
		}
		if c.Rate != "" {
			m["rate"] = c.Rate
		}
		if c.Percent != "" {
			m["percent"] = c.Percent
		}
		if c.Region != "" {
			m["ext"] = map[string]any{"pt-region": c.Region}
		}
		out = append(out, m)
	}
	return out
}

// crDocument writes the JSON of a spec.
func crDocument(s CRSpec) []byte {
	supplier := map[string]any{"name": "Supplier", "tax_id": map[string]any{"country": "PT", "code": "545259045"}}
	if s.Regime == "ES" {
		supplier = map[string]any{"name": "Supplier", "tax_id": map[string]any{"country": "ES", "code": "B98602642"}}
	}
	m := map[string]any{
		"$schema":    "https://gobl.org/draft-0/bill/" + s.Schema,
		"uuid":       "0190f3c6-1b2a-7000-8000-3f1e2d4c5b6a",
		"series":     "CR",
		"code":       "001",
		"issue_date": "2024-03-15",
		"currency":   "EUR",
		"supplier":   supplier,
	}
	if s.Tagged {
		m["$tags"] = []string{"customer-rates"}
	}
	if len(s.Addons) > 0 {
		m["$addons"] = s.Addons
	}
	switch s.Customer {
	case "none":
	case "noid":
		m["customer"] = map[string]any{"name": "Customer"}
	default:
		m["customer"] = map[string]any{"name": "Customer", "tax_id": map[string]any{"country": s.Customer}}
	}
	var lines []map[string]any
	for i, cs := range s.Lines {
		lines = append(lines, map[string]any{
			"quantity": fmt.Sprintf("%d", i+1),
			"item":     map[string]any{"name": fmt.Sprintf("item %d", i+1), "price": "10.00"},
			"taxes":    crTaxes(cs),
		})
	}
	m["lines"] = lines
	var ds []map[string]any
	for _, cs := range s.Discounts {
		ds = append(ds, map[string]any{"reason": "discount", "amount": "1.00", "taxes": crTaxes(cs)})
	}
	if ds != nil {
		m["discounts"] = ds
	}
	var chs []map[string]any
	for _, cs := range s.Charges {
		chs = append(chs, map[string]any{"reason": "charge", "amount": "2.00", "taxes": crTaxes(cs)})
	}
	if chs != nil {
		m["charges"] = chs
	}
	b, _ := json.Marshal(m)
	return b
}

// crOut is what the family looks at in a calculated document.
type crOut struct {
	Customer *struct {
		TaxID *struct {
			Country string `json:"country"`
		} `json:"tax_id"`
	} `json:"customer"`
	Lines     []crOutRow `json:"lines"`
	Discounts []crOutRow `json:"discounts"`
	Charges   []crOutRow `json:"charges"`
}

type crOutRow struct {
	Taxes []struct {
		Cat     string            `json:"cat"`
		Country string            `json:"country"`
		Ext     map[string]string `json:"ext"`
	} `json:"taxes"`
}

func crParseDoc(envelope []byte) (json.RawMessage, *crOut, error) {
	var e struct {
		Doc json.RawMessage `json:"doc"`
	}
	if err := json.Unmarshal(envelope, &e); err != nil {
		return nil, nil, err
	}
	o := new(crOut)
	if err := json.Unmarshal(e.Doc, o); err != nil {
		return nil, nil, err
	}
	return e.Doc, o, nil
}

func (o *crOut) combos() []string {
	var out []string
	for _, rows := range [][]crOutRow{o.Lines, o.Discounts, o.Charges} {
		for _, r := range rows {
			for _, t := range r.Taxes {
				out = append(out, fmt.Sprintf("%s,%s,%s", core.Hex(t.Country), core.Hex(t.Ext["pt-region"]), core.Hex(t.Ext["pt-saft-tax-rate"])))
			}
		}
	}
	return out
}

// crExplicit writes the customer's normalised country on every combo of the input.
func crExplicit(data []byte, country string) []byte {
	var m map[string]any
	if json.Unmarshal(data, &m) != nil {
		return nil
	}
	for _, key := range []string{"lines", "discounts", "charges"} {
		rows, _ := m[key].([]any)
		for _, r := range rows {
			row, _ := r.(map[string]any)
			taxes, _ := row["taxes"].([]any)
			for _, t := range taxes {
				if tm, ok := t.(map[string]any); ok {
					tm["country"] = country
				}
			}
		}
	}
	b, _ := json.Marshal(m)
	return b
}

// crModelRequest encodes a spec for the Lean driver (regime PT only).
func crModelRequest(s CRSpec) string {
	var sb strings.Builder
	saft := 0
	for _, a := range s.Addons {
		if a == "pt-saft-v1" {
			saft = 1
		}
	}
	tagged := 0
	if s.Tagged {
		tagged = 1
	}
	cust := "none"
	if s.Customer != "none" && s.Customer != "noid" {
		cust = core.Hex(s.Customer)
	}
	fmt.Fprintf(&sb, "cr %d %d %s", saft, tagged, cust)
	for _, rows := range [][][]CRCombo{s.Lines, s.Discounts, s.Charges} {
		fmt.Fprintf(&sb, " %d", len(rows))
		for _, cs := range rows {
			fmt.Fprintf(&sb, " %d", len(cs))
			for _, c := range cs {
				fmt.Fprintf(&sb, " %s %s %s %s %s", core.Hex(c.Cat), core.Hex(c.Country), core.Hex(c.Rate), core.Hex(c.Region), core.Hex(""))
			}
		}
	}
	return sb.String()
}

func crInModelDomain(s CRSpec) bool {
	if s.Regime != "PT" {
		return false
	}
	for _, a := range s.Addons {
		if a != "pt-saft-v1" {
			return false
		}
	}
	return true
}

// crPending is a calculated case waiting for the model's answer.
type crPending struct {
	cs       Case
	cust     string   // customer country after the first calculation ("none")
	first    []string // combos after one Calculate
	second   []string // after two (nil: not available)
	explicit []string // combos of the explicit-country document after one Calculate (nil: not applicable)
}

// crJudge: later calculations of a case of the family, and the queue for the model.
func crJudge(c *core.Ctx, cs Case, b1 []byte, cls string, queue *[]crPending) {
	s := cs.CR
	_, o1, err := crParseDoc(b1)
	if err != nil {
		return
	}
	cust := "none"
	if o1.Customer != nil && o1.Customer.TaxID != nil {
		cust = o1.Customer.TaxID.Country
	}
	c.Count("customer-rates:"+s.Schema+":"+s.Regime+"+"+strings.Join(s.Addons, "+"), 1)
	c.Count("customer-rates:customer:"+s.Customer, 1)
	p := crPending{cs: cs, cust: cust, first: o1.combos()}
	// the second calculation is a fixpoint, whatever the first one was
	var b2, b3 []byte
	var err2, err3 error
	if pan := core.Protect(func() {
		b2, _, err2 = round(b1)
		if err2 == nil {
			b3, _, err3 = round(b2)
		}
	}); pan == "" && err2 == nil && err3 == nil {
		if _, o2, e := crParseDoc(b2); e == nil {
			p.second = o2.combos()
		}
		if string(b1) != string(b2) {
			c.Count("customer-rates:first-calculation-not-a-fixpoint", 1)
		}
		if string(b2) != string(b3) {
			c.Fail(cls, "the SECOND calculation of a customer-rates document is not a fixpoint either: "+firstDiff(b2, b3), cs)
			if crInModelDomain(*s) {
				c.TieBroken("model:pt_later_calculations_fixpoint", "third calculation differs from the second: "+firstDiff(b2, b3), cs)
			}
		} else {
			c.Count("customer-rates:second-calculation-is-a-fixpoint", 1)
		}
	}
	if !crInModelDomain(*s) {
		c.Count("customer-rates:outside-model-domain", 1)
		return
	}
	// the document with the customer's country written on every combo by hand
	if s.Tagged && cust != "none" && cust != "" {
		ex := Case{Name: cs.Name + "/explicit", Data: crExplicit(cs.Data, cust)}
		if e2, errx := build(ex); errx == nil {
			bx, _ := json.Marshal(e2)
			if _, ox, e := crParseDoc(bx); e == nil {
				p.explicit = ox.combos()
			}
		} else {
			c.Count("customer-rates:explicit-document-does-not-calculate", 1)
		}
	}
	*queue = append(*queue, p)
}

// crCompare sends the queued cases to the Lean driver and compares.
func crCompare(c *core.Ctx, queue []crPending) {
	if len(queue) == 0 {
		return
	}
	reqs := make([]string, len(queue))
	for i, p := range queue {
		reqs[i] = crModelRequest(*p.cs.CR)
	}
	resp, err := c.Model(reqs)
	if err != nil {
		c.TieBroken("drive:C04/model", "the Lean driver failed: "+err.Error(), nil)
		return
	}
	for i, p := range queue {
		f := strings.Fields(resp[i])
		// ok <customer> first <combo>* second <combo>* alt <combo>*
		if len(f) < 4 || f[0] != "ok" || f[2] != "first" {
			c.TieBroken("drive:C04/model", "unexpected answer of the Lean driver: "+resp[i], p.cs)
			continue
		}
		parts := map[string][]string{}
		cur := "first"
		for _, t := range f[3:] {
			if t == "second" || t == "alt" {
				cur = t
				continue
			}
			parts[cur] = append(parts[cur], t)
		}
		gotCust := "none"
		if p.cust != "none" {
			gotCust = core.Hex(p.cust)
		}
		agree := true
		if got, want := strings.Join(p.first, " "), strings.Join(parts["first"], " "); got != want || gotCust != f[1] {
			agree = false
			c.TieBroken("model:CustomerRates.pass", fmt.Sprintf("country,pt-region,pt-saft-tax-rate of the combos after ONE Calculate: code [%s] customer %s, model [%s] customer %s", got, gotCust, want, f[1]), p.cs)
		}
		if p.second != nil {
			if got, want := strings.Join(p.second, " "), strings.Join(parts["second"], " "); got != want {
				agree = false
				c.TieBroken("model:CustomerRates.pass.pass", fmt.Sprintf("country,pt-region,pt-saft-tax-rate of the combos after TWO Calculates: code [%s], model [%s]", got, want), p.cs)
			}
		}
		if p.explicit != nil {
			if got, want := strings.Join(p.explicit, " "), strings.Join(parts["alt"], " "); got != want {
				agree = false
				c.TieBroken("model:repair_is_todays_explicit_country", fmt.Sprintf("combos of the document with the customer's country written by hand after one Calculate: code [%s], model passAlt [%s]", got, want), p.cs)
			} else {
				c.Count("customer-rates:explicit-country-document-agrees-with-passAlt", 1)
			}
		}
		if agree {
			c.Count("customer-rates:model-agrees", 1)
		}
	}
}
