package c04

// STORED TAX SUMMARIES.
//
// The statement quantifies over "all documents of every registered schema": a document can carry tax
// summaries that ARRIVE in it instead of being built from its own lines — `preceding[].tax` of invoices,
// orders and deliveries, `lines[].document.tax` of payments (org.DocumentRef) — and calculation runs over
// those too, every time.  For them the output of one calculation (category amounts, surcharges, sums) is
// the INPUT of the next, so whatever a calculation step leaves in place, adds to or reads before writing
// shows in the second round and never in the first.  The examples carry at most a bare base and percentage
// there.  This family derives the documents: the calculated tax summary of every example of a directory
// (taken from the calculation of the example itself: rates with surcharges, retained categories, exempt
// rates, several categories) is attached as the stored summary of a preceding reference / of the payment
// lines of every other example of that directory.  Judged like every other case: parse ∘ serialise is
// the identity, validating changes nothing, three serialise → parse → calculate rounds give the same bytes
// and digest.

import (
	"encoding/json"
	"path/filepath"
	"sort"
	"strings"

	"verifharness/internal/core"
)

// summaryOf: `totals.taxes` of the calculated document of a case (nil when there is none).
func summaryOf(cs Case) (out json.RawMessage) {
	_ = core.Protect(func() {
		env, err := build(cs)
		if err != nil || env == nil || env.Document == nil {
			return
		}
		b, err := json.Marshal(env.Document)
		if err != nil {
			return
		}
		var doc struct {
			Totals struct {
				Taxes json.RawMessage `json:"taxes"`
			} `json:"totals"`
		}
		if json.Unmarshal(b, &doc) == nil && len(doc.Totals.Taxes) > 2 {
			out = doc.Totals.Taxes
		}
	})
	return
}

// storedSummaries: every example document with the calculated tax summary of every example of the same
// directory stored in a preceding reference (invoices, orders, deliveries) or in its payment lines.
func storedSummaries(examples []Case, stride int) []Case {
	type donor struct {
		name string
		tax  json.RawMessage
	}
	donors := map[string][]donor{}
	seen := map[string]bool{}
	for _, cs := range examples {
		if cs.Envelope {
			continue
		}
		s := summaryOf(cs)
		dir := filepath.Dir(cs.Name)
		if s == nil || seen[dir+string(s)] {
			continue
		}
		seen[dir+string(s)] = true
		donors[dir] = append(donors[dir], donor{filepath.Base(cs.Name), s})
	}
	var out []Case
	k := 0
	for _, cs := range examples {
		if cs.Envelope {
			continue
		}
		ds := donors[filepath.Dir(cs.Name)]
		sort.Slice(ds, func(i, j int) bool { return ds[i].name < ds[j].name })
		for _, d := range ds {
			k++
			if stride > 1 && k%stride != 0 {
				continue
			}
			var m map[string]any
			if json.Unmarshal(cs.Data, &m) != nil {
				continue
			}
			var stored any
			_ = json.Unmarshal(d.tax, &stored)
			schema, _ := m["$schema"].(string)
			switch {
			case strings.HasSuffix(schema, "bill/payment"):
				lines, _ := m["lines"].([]any)
				n := 0
				for _, l := range lines {
					if lo, ok := l.(map[string]any); ok {
						if doc, ok := lo["document"].(map[string]any); ok {
							doc["tax"] = stored
							n++
						}
					}
				}
				if n == 0 {
					continue
				}
			case strings.HasSuffix(schema, "bill/invoice"), strings.HasSuffix(schema, "bill/order"), strings.HasSuffix(schema, "bill/delivery"):
				ref := map[string]any{"code": "STORED-1", "issue_date": "2024-01-15", "tax": stored}
				pre, _ := m["preceding"].([]any)
				m["preceding"] = append([]any{ref}, pre...)
			default:
				continue
			}
			b, err := json.Marshal(m)
			if err != nil {
				continue
			}
			out = append(out, Case{Name: cs.Name + "~" + d.name, Data: b})
		}
	}
	return out
}
