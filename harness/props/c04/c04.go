// Package c04: calculation is a deterministic fixpoint and serialisation is
// lossless.  Relations between runs of the real code (bytes and digests of
// calculate / serialise / parse rounds, in this process and in a second
// process with a different GOMAXPROCS), over every example document, every
// example invoice crossed with every registered addon, and random documents.
package c04

import (
	"bufio"
	"bytes"
	"encoding/json"
	"fmt"
	"os"
	"os/exec"
	"path/filepath"
	"regexp"
	"sort"
	"strings"

	"github.com/invopop/gobl"
	"github.com/invopop/gobl/bill"
	"github.com/invopop/gobl/cbc"
	"github.com/invopop/gobl/currency"
	"github.com/invopop/gobl/dsig"
	"github.com/invopop/gobl/head"
	"github.com/invopop/gobl/schema"
	"github.com/invopop/gobl/tax"
	"github.com/invopop/yaml"

	"verifharness/internal/calcproto"
	"verifharness/internal/core"
)

// Case is one input document (JSON of a schema object or of an envelope).
type Case struct {
	Name     string          `json:"name"`
	Envelope bool            `json:"envelope"`
	Data     json.RawMessage `json:"data"`
	Doc      *calcproto.Doc  `json:"doc,omitempty"`
	CR       *CRSpec         `json:"customer_rates,omitempty"`
	// History: inputs calculated by the same process before this one (history.go)
	History []json.RawMessage `json:"history,omitempty"`
	// Dirty: how Data was derived from an example (dirty.go)
	Dirty *DirtySpec `json:"dirty,omitempty"`
	// Tampered: Data is an envelope whose document was edited after calculation (tampered.go)
	Tampered string `json:"tampered,omitempty"`
}

func exampleFiles(repo string) []string {
	var files []string
	_ = filepath.Walk(filepath.Join(repo, "examples"), func(path string, info os.FileInfo, err error) error {
		if err != nil || info.IsDir() {
			return nil
		}
		switch filepath.Ext(path) {
		case ".yaml", ".json":
			files = append(files, path)
		}
		return nil
	})
	sort.Strings(files)
	return files
}

func loadExample(path string) (Case, error) {
	data, err := os.ReadFile(path)
	if err != nil {
		return Case{}, err
	}
	j, err := yaml.YAMLToJSON(data)
	if err != nil {
		return Case{}, err
	}
	isEnv := strings.Contains(path, ".env.") || strings.Contains(path, "/out/")
	return Case{Name: path, Envelope: isEnv, Data: j}, nil
}

// build turns a case into a calculated envelope.
func build(cs Case) (*gobl.Envelope, error) {
	if cs.Envelope {
		env := new(gobl.Envelope)
		if err := json.Unmarshal(cs.Data, env); err != nil {
			return nil, err
		}
		if err := env.Calculate(); err != nil {
			return nil, err
		}
		return env, nil
	}
	doc := new(schema.Object)
	if err := json.Unmarshal(cs.Data, doc); err != nil {
		return nil, err
	}
	return gobl.Envelop(doc)
}

// round: parse the bytes, calculate again, serialise.
func round(b []byte) ([]byte, string, error) {
	env := new(gobl.Envelope)
	if err := json.Unmarshal(b, env); err != nil {
		return nil, "", fmt.Errorf("parse: %w", err)
	}
	if err := env.Calculate(); err != nil {
		return nil, "", fmt.Errorf("calculate: %w", err)
	}
	out, err := json.Marshal(env)
	if err != nil {
		return nil, "", err
	}
	dig := ""
	if env.Head != nil && env.Head.Digest != nil {
		dig = env.Head.Digest.Value
	}
	return out, dig, nil
}

func firstDiff(a, b []byte) string {
	// skip the header (its digest differs whenever anything else does)
	if i, j := bytes.Index(a, []byte(`"doc":`)), bytes.Index(b, []byte(`"doc":`)); i > 0 && j > 0 && !bytes.Equal(a[i:], b[j:]) {
		a, b = a[i:], b[j:]
	}
	n := min(len(a), len(b))
	for i := 0; i < n; i++ {
		if a[i] != b[i] {
			lo, hi := max(0, i-60), min(n, i+60)
			return fmt.Sprintf("at byte %d: …%s… vs …%s…", i, a[lo:hi], b[lo:min(len(b), hi)])
		}
	}
	return fmt.Sprintf("lengths %d vs %d", len(a), len(b))
}

// classify names the known finding (if any) an input falls under.
func classify(cs Case, env *gobl.Envelope) string {
	if cs.Doc != nil {
		sub := uint32(2)
		if inv, ok := env.Extract().(*bill.Invoice); ok && inv.Currency.Def() != nil {
			sub = inv.Currency.Def().Subunits
		}
		if calcproto.FixedFinerThanPresented(cs.Doc, sub) {
			return "c04.fixedAmountFinerThanPresented"
		}
	}
	return ""
}

// customerRatesWithAddon: the `customer-rates` tag makes calculate() assign the
// customer's country to every combo AFTER the normalisers have run, so a
// normaliser that looks at the combo country (pt-saft-v1: tax-rate NOR vs OUT;
// the PT regime itself: pt-region PT vs the customer's country; es-verifactu-v1:
// a combo written with a foreign country of its own is left alone in the first
// calculation and, once the customer's country ES replaced it and was dropped,
// receives regime 01 / op-class S1 in the next) sees a different document on
// the next calculation.  The input has the tag and either one of those two
// addons or a PT regime (`$regime` or the supplier's tax country).
func customerRatesWithAddon(data []byte) bool {
	type head struct {
		Tags   []string `json:"$tags"`
		Addons []string `json:"$addons"`
		Regime string   `json:"$regime"`
		Tax    *struct {
			Tags []string `json:"tags"` // the earlier place of the tags, still read and moved to $tags
		} `json:"tax"`
		Supplier *struct {
			TaxID *struct {
				Country string `json:"country"`
			} `json:"tax_id"`
		} `json:"supplier"`
	}
	var d struct {
		head
		Doc *head `json:"doc"`
	}
	if json.Unmarshal(data, &d) != nil {
		return false
	}
	tags, addons := d.Tags, d.Addons
	if d.Tax != nil {
		tags = append(tags, d.Tax.Tags...)
	}
	pt := func(h *head) bool {
		return h.Regime == "PT" || (h.Regime == "" && h.Supplier != nil && h.Supplier.TaxID != nil && h.Supplier.TaxID.Country == "PT")
	}
	isPT := pt(&d.head)
	if d.Doc != nil {
		tags, addons = append(tags, d.Doc.Tags...), append(addons, d.Doc.Addons...)
		if d.Doc.Tax != nil {
			tags = append(tags, d.Doc.Tax.Tags...)
		}
		isPT = isPT || pt(d.Doc)
	}
	has := false
	for _, t := range tags {
		if t == "customer-rates" {
			has = true
		}
	}
	if !has {
		return false
	}
	for _, a := range addons {
		if a == "pt-saft-v1" || a == "es-verifactu-v1" {
			return true
		}
	}
	return isPT
}

func codeNotIdempotent(s string) bool {
	n := cbc.NormalizeCode(cbc.Code(s))
	return cbc.NormalizeCode(n) != n
}

// Worker mode: read envelopes (one JSON per line), print the digest after a
// parse + calculate round.  Used to compare across processes / GOMAXPROCS.
func worker() int {
	sc := bufio.NewScanner(os.Stdin)
	sc.Buffer(make([]byte, 1<<20), 1<<26)
	w := bufio.NewWriter(os.Stdout)
	defer w.Flush()
	for sc.Scan() {
		out, dig, err := round(sc.Bytes())
		if err != nil {
			fmt.Fprintf(w, "error %v\n", err)
			continue
		}
		fmt.Fprintf(w, "%s %x\n", dig, len(out))
	}
	return 0
}

var signKey = dsig.NewES256Key()

// Run is the C04 check.
func Run(c *core.Ctx) int {
	switch mode := os.Getenv("VERIF_C04_WORKER"); mode {
	case "":
	case "inputs", "probe":
		return historyWorker(mode)
	default:
		return worker()
	}
	var cases []Case
	var rc Case
	var examples []Case
	var addons []string
	if c.ReplayCase(&rc) {
		cases = []Case{rc}
		if rc.Dirty != nil {
			dirtyReplay(c, rc)
			return c.Finish("replay of one dirty input", nil)
		}
		if rc.Tampered != "" {
			c.Eval("tampered:"+rc.Name, true)
			if diff, _ := validateUnchanged(rc.Data); diff != "" {
				c.Fail("", "validate/digest/verify/extract changed an envelope whose document was edited after calculation ("+rc.Tampered+"): "+diff, rc)
			}
			return c.Finish("replay of one edited envelope", nil)
		}
	} else {
		var invoices []Case
		for _, f := range exampleFiles(c.Repo) {
			cs, err := loadExample(f)
			if err != nil {
				continue
			}
			cases = append(cases, cs)
			examples = append(examples, cs)
			if !cs.Envelope && bytes.Contains(cs.Data, []byte("bill/invoice")) {
				invoices = append(invoices, cs)
			}
		}
		// every example invoice x every registered addon
		for _, a := range tax.AllAddonDefs() {
			addons = append(addons, string(a.Key))
		}
		sort.Strings(addons)
		stride := 1
		if !c.Thorough() {
			stride = 4
		}
		k := int(c.Seed)
		for _, cs := range invoices {
			for _, a := range addons {
				k++
				if k%stride != 0 {
					continue
				}
				var m map[string]any
				if json.Unmarshal(cs.Data, &m) != nil {
					continue
				}
				m["$addons"] = []string{a}
				b, _ := json.Marshal(m)
				cases = append(cases, Case{Name: cs.Name + "+" + a, Data: b})
			}
		}
		// addon combinations and transplanted collections (history.go)
		cases = append(cases, addonCombinations(invoices, addons)...)
		cases = append(cases, transplants(invoices)...)
		// tax summaries that arrive in the document: the calculated summary of every example stored in a
		// preceding reference / the payment lines of every other example of its directory (stored.go)
		cases = append(cases, storedSummaries(examples, c.Pick(2, 1))...)
		// the customer-rates family (customerrates.go): grid + random documents
		for i, sp := range crSpecs(c.Rng, c.Pick(400, 20000)) {
			sp := sp
			cases = append(cases, Case{Name: fmt.Sprintf("customer-rates-%d", i), Data: crDocument(sp), CR: &sp})
		}
		// random documents
		n := c.Pick(1500, 100000)
		for i := 0; i < n; i++ {
			d := calcproto.Gen(c.Rng, calcproto.GenOpts{})
			inv := d.Invoice()
			if c.Rng.Intn(4) == 0 {
				inv.Series = cbc.Code(randCode(c))
			}
			if c.Rng.Intn(4) == 0 {
				inv.Code = cbc.Code(randCode(c))
			}
			obj, err := schema.NewObject(inv)
			if err != nil {
				continue
			}
			b, _ := json.Marshal(obj)
			cases = append(cases, Case{Name: fmt.Sprintf("random-%d", i), Data: b, Doc: d})
		}
		// an externally supplied rounding finer than the currency, on a grid around zero: the payable
		// amount adds it to the unrounded total, so for some grid value the sum lies next to a half
		// unit and any later change of the stored rounding shows in the second calculation
		for i, m := 0, c.Pick(60, 3000); i < m; i++ {
			d := calcproto.Gen(c.Rng, calcproto.GenOpts{NoRounding: true})
			sub := uint32(2)
			if def := currency.Code(d.Cur).Def(); def != nil {
				sub = def.Subunits
			}
			for v := int64(-9); v <= 9; v++ {
				if v == 0 {
					continue
				}
				dd := *d
				dd.Rounding = &calcproto.Amt{V: v, E: sub + 1}
				obj, err := schema.NewObject(dd.Invoice())
				if err != nil {
					continue
				}
				b, _ := json.Marshal(obj)
				dcopy := dd
				cases = append(cases, Case{Name: fmt.Sprintf("rounding-grid-%d/%d", i, v), Data: b, Doc: &dcopy})
			}
		}
	}

	if os.Getenv("VERIF_C04_ONLY") == "dirty" { // exploration of the dirty-input family alone
		cases = nil
	}
	var forWorker [][]byte
	var workerWant []string
	var crQueue []crPending
	var pool []Case
	var poolFirst []string
	for i, cs := range cases {
		if len(cs.History) > 0 {
			historyReplay(c, cs)
		}
		var env *gobl.Envelope
		var err error
		if pan := core.Protect(func() { env, err = build(cs) }); pan != "" {
			c.Count("build:panic", 1)
			continue
		}
		if err != nil {
			c.Count("build:error", 1)
			if cs.CR != nil {
				c.Count("customer-rates:build-error:"+cs.CR.Schema+":"+cs.CR.Regime+":"+cs.CR.Customer, 1)
			}
			continue
		}
		kind := "example"
		if cs.Doc != nil {
			kind = "random"
		} else if cs.CR != nil {
			kind = "customer-rates"
		} else if strings.Contains(cs.Name, "@") {
			kind = "example+addon-combination"
		} else if strings.Contains(cs.Name, "~") {
			kind = "example+stored-summary"
		} else if strings.Contains(cs.Name, "&") {
			kind = "example+transplant"
		} else if strings.Contains(cs.Name, "+") {
			kind = "example+addon"
		}
		if cs.Doc == nil && cs.CR == nil && rc.Data == nil && !strings.Contains(cs.Name, "~") {
			pool, poolFirst = append(pool, cs), append(poolFirst, sig(env))
		}
		c.Count("kind:"+kind, 1)
		c.Count("schema:"+env.Document.Schema.String(), 1)
		b1, err := json.Marshal(env)
		if err != nil {
			c.Fail("", "calculated envelope does not serialise: "+err.Error(), cs)
			continue
		}
		if cs.Doc != nil && hugeAmount.Match(b1) {
			// a random document whose figures left the 2^52 / int64 domain of the
			// decimal arithmetic (C05): outside what the property speaks about
			c.Count("skipped:outside-magnitude-domain", 1)
			continue
		}
		c.Eval(cs.Name, true)
		if i%499 == 0 {
			c.Sample(map[string]any{"name": cs.Name, "bytes": len(b1)})
		}
		cls := classify(cs, env)
		if cls == "" && customerRatesWithAddon(cs.Data) {
			cls = "c04.customerRatesThenCountryNormaliser"
		}
		if cls == "" {
			if inv, ok := env.Extract().(*bill.Invoice); ok {
				var raw struct {
					Doc struct {
						Series string `json:"series"`
						Code   string `json:"code"`
					} `json:"doc"`
				}
				_ = json.Unmarshal(b1, &raw)
				_ = inv
				var in struct {
					Series string `json:"series"`
					Code   string `json:"code"`
				}
				_ = json.Unmarshal(cs.Data, &in)
				if codeNotIdempotent(in.Series) || codeNotIdempotent(in.Code) {
					cls = "c04.normalizeCodeNotIdempotent"
				}
			}
		}

		// (1) parse . serialise is the identity
		{
			e2 := new(gobl.Envelope)
			if err := json.Unmarshal(b1, e2); err != nil {
				c.Fail("", "serialised envelope does not parse: "+err.Error(), cs)
				continue
			}
			b, _ := json.Marshal(e2)
			if !bytes.Equal(b, b1) {
				c.Fail("", "parse then serialise is not the identity: "+firstDiff(b1, b), cs)
				continue
			}
			// (2) validate / digest / verify / extract never change the envelope
			_ = core.Protect(func() { _ = e2.Validate() }) // panics are C14's subject
			_, _ = e2.Digest()
			_ = core.Protect(func() { _ = e2.Verify() })
			_ = e2.Extract()
			b, _ = json.Marshal(e2)
			if !bytes.Equal(b, b1) {
				c.Fail("", "validate/digest/verify/extract changed the envelope: "+firstDiff(b1, b), cs)
				continue
			}
		}
		// (2a) the same for the envelope with one member of its document removed or altered after
		// calculation (tampered.go): the examples and the examples with an addon
		if cs.Doc == nil && cs.CR == nil && rc.Data == nil && !strings.ContainsAny(cs.Name, "@&~") {
			tamperedValidate(c, cs, b1)
		}
		// (2b) the same for the envelope once it is signed and carries header entries in an order that is
		// not the sorted one (stamps are only allowed on signed envelopes): read, validate, digest, verify
		// with and without the key, extract — the bytes written afterwards are the bytes read
		if i%3 == 0 || (cs.Doc == nil && !strings.ContainsAny(cs.Name, "@&~")) {
			e3 := new(gobl.Envelope)
			if json.Unmarshal(b1, e3) == nil && e3.Validate() == nil {
				var serr error
				if pan := core.Protect(func() { serr = e3.Sign(signKey) }); pan == "" && serr == nil {
					for _, p := range []string{"zeta-prv", "alpha-prv", "mid-prv"} {
						e3.Head.AddStamp(&head.Stamp{Provider: cbc.Key(p), Value: "v-" + p})
					}
					for _, k := range []string{"zz-link", "aa-link"} {
						e3.Head.AddLink(&head.Link{Key: cbc.Key(k), URL: "https://example.com/" + k})
					}
					e3.Head.Tags = append(e3.Head.Tags, "zulu", "alpha")
					if e3.Head.Meta == nil {
						e3.Head.Meta = cbc.Meta{}
					}
					e3.Head.Meta["zz"], e3.Head.Meta["aa"] = "1", "2"
					bs, _ := json.Marshal(e3)
					e4 := new(gobl.Envelope)
					if err := json.Unmarshal(bs, e4); err != nil {
						c.Fail("", "signed and stamped envelope does not parse: "+err.Error(), cs)
						continue
					}
					c.Count("signed-and-stamped", 1)
					var verr, kerr error
					_ = core.Protect(func() { verr = e4.Validate() })
					_, _ = e4.Digest()
					_ = core.Protect(func() { _ = e4.Verify() })
					_ = core.Protect(func() { kerr = e4.Verify(signKey.Public()) })
					_ = e4.Extract()
					b, _ := json.Marshal(e4)
					if !bytes.Equal(b, bs) {
						c.Fail("", "validate/digest/verify/extract changed the signed envelope: "+firstDiff(bs, b), cs)
						continue
					}
					if verr != nil || kerr != nil {
						c.Count("signed-and-stamped:not-valid-or-not-verified", 1)
					}
					// a signature handed over in another JWS serialization (flattened JSON with an
					// unprotected header): either the text is refused, or what is written back is read
					// again and written the same — an accepted text never turns into an unreadable one
					if len(e3.Signatures) > 0 {
						if parts := strings.Split(e3.Signatures[0].String(), "."); len(parts) == 3 {
							alt, _ := json.Marshal(map[string]any{"protected": parts[0], "header": map[string]any{"x-note": "n"}, "payload": parts[1], "signature": parts[2]})
							var m map[string]any
							if json.Unmarshal(bs, &m) == nil {
								m["sigs"] = []any{string(alt)}
								ba, _ := json.Marshal(m)
								e5 := new(gobl.Envelope)
								if err := json.Unmarshal(ba, e5); err != nil {
									c.Count("signature-in-json-serialization:refused", 1)
								} else {
									c.Count("signature-in-json-serialization:accepted", 1)
									b5, _ := json.Marshal(e5)
									e6 := new(gobl.Envelope)
									if err := json.Unmarshal(b5, e6); err != nil {
										c.Fail("", "an envelope whose signature is given in the JWS JSON serialization is read, but what is written back is not readable: "+err.Error(), cs)
										continue
									}
									if b6, _ := json.Marshal(e6); !bytes.Equal(b6, b5) {
										c.Fail("", "parse then serialise is not the identity for an envelope read with a JSON-serialized signature: "+firstDiff(b5, b6), cs)
										continue
									}
								}
							}
						}
					}
				}
			}
		}
		// (3) calculate is a fixpoint over serialise / parse rounds
		prev, prevDig := b1, ""
		if env.Head != nil && env.Head.Digest != nil {
			prevDig = env.Head.Digest.Value
		}
		ok := true
		for rnd := 1; rnd <= 3 && ok; rnd++ {
			var b []byte
			var dig string
			var rerr error
			if pan := core.Protect(func() { b, dig, rerr = round(prev) }); pan != "" {
				c.Fail(cls, "recalculation panicked: "+pan, cs)
				ok = false
				break
			}
			if rerr != nil {
				c.Fail(cls, fmt.Sprintf("round %d: a calculated document fails to recalculate: %v", rnd, rerr), cs)
				ok = false
				break
			}
			if !bytes.Equal(b, prev) || dig != prevDig {
				c.Fail(cls, fmt.Sprintf("round %d: serialise, parse and calculate again changes the document: %s", rnd, firstDiff(prev, b)), cs)
				ok = false
				break
			}
			prev, prevDig = b, dig
		}
		if cs.CR != nil {
			crJudge(c, cs, b1, cls, &crQueue)
		}
		if ok && len(forWorker) < c.Pick(600, 20000) {
			forWorker = append(forWorker, b1)
			workerWant = append(workerWant, fmt.Sprintf("%s %x", prevDig, len(b1)))
		}
	}
	// the customer-rates family against Model/CustomerRates.lean
	crCompare(c, crQueue)
	// what a document calculates to does not depend on what was calculated before (history.go)
	historyIndependence(c, pool, poolFirst)
	// not-yet-normalised spellings of the examples (dirty.go)
	if rc.Data == nil && rc.Doc == nil {
		dirtyFamily(c, examples, addons)
	}
	// (4) another process, GOMAXPROCS=1
	if len(forWorker) > 0 && !c.Search {
		cmd := exec.Command(os.Args[0], "-root", c.Root, "-repo", c.Repo, "-model", c.ModelBin, "C04")
		cmd.Env = append(os.Environ(), "VERIF_C04_WORKER=1", "GOMAXPROCS=1")
		cmd.Stdin = bytes.NewReader(append(bytes.Join(forWorker, []byte("\n")), '\n'))
		out, err := cmd.Output()
		if err != nil {
			c.TieBroken("drive:C04/worker", "second process failed: "+err.Error(), nil)
		} else {
			got := strings.Split(strings.TrimSpace(string(out)), "\n")
			for i := range workerWant {
				if i >= len(got) || got[i] != workerWant[i] {
					g := ""
					if i < len(got) {
						g = got[i]
					}
					c.Fail("", fmt.Sprintf("a second process (GOMAXPROCS=1) computes a different digest/length: %s vs %s", g, workerWant[i]), map[string]any{"envelope": json.RawMessage(forWorker[i])})
					break
				}
			}
			c.Count("cross-process-envelopes", int64(len(workerWant)))
		}
	}
	// every registered schema: the document that carries nothing but its `$schema` is either refused
	// when read, or written back as the same text (parse then serialise is the identity)
	if rc.Data == nil && rc.Doc == nil {
		for _, id := range schema.List() {
			text := []byte(`{"$schema":"` + id.String() + `"}`)
			obj := new(schema.Object)
			var uerr, merr error
			var out []byte
			if pan := core.Protect(func() {
				if uerr = json.Unmarshal(text, obj); uerr == nil {
					out, merr = json.Marshal(obj)
				}
			}); pan != "" {
				c.Count("schema-only:panic", 1) // a C14 matter
				continue
			}
			c.Eval("schema-only:"+id.String(), true)
			switch {
			case uerr != nil:
				c.Count("schema-only:refused-when-read", 1)
			case merr != nil:
				c.Fail("", fmt.Sprintf("%s is read without error but cannot be written again: %v", text, merr), Case{Name: "schema-only", Data: text})
			default:
				c.Count("schema-only:written-back", 1)
				var a, b any
				if json.Unmarshal(text, &a) != nil || json.Unmarshal(out, &b) != nil {
					c.Fail("", fmt.Sprintf("%s is written back as invalid JSON: %s", text, out), Case{Name: "schema-only", Data: text})
				}
			}
		}
	}
	// recalculation after an input edit: nothing of the first calculation may survive
	// ("recompute everything from inputs, reset totals")
	if rc.Doc != nil || rc.Data == nil {
		var sd []*calcproto.Doc
		if rc.Doc != nil {
			sd = []*calcproto.Doc{rc.Doc}
		} else {
			for i := 0; i < c.Pick(800, 40000); i++ {
				sd = append(sd, calcproto.Gen(c.Rng, calcproto.GenOpts{}))
			}
		}
		for _, d := range sd {
			inv := d.Invoice()
			var cerr error
			if pan := core.Protect(func() { cerr = inv.Calculate() }); pan != "" || cerr != nil {
				continue
			}
			if b, _ := json.Marshal(inv); hugeAmount.Match(b) {
				continue
			}
			for e := range calcproto.Edits {
				var diff string
				var ok bool
				if pan := core.Protect(func() { _, diff, ok = calcproto.RecalcAfterEdit(inv, e) }); pan != "" {
					c.Fail("", "recalculation after "+calcproto.Edits[e].Name+" panicked: "+pan, Case{Name: "recalc", Doc: d})
					break
				}
				if !ok {
					continue
				}
				c.Count("recalc-after-edit:"+calcproto.Edits[e].Name, 1)
				c.Eval("recalc", true)
				if diff != "" {
					c.Fail("", "a figure of the first calculation survives a recalculation: "+diff, Case{Name: "recalc", Doc: d})
					break
				}
			}
		}
	}
	return c.Finish("every file under /repo/examples (inputs and calculated outputs), every example invoice crossed with every registered addon (a quarter of the pairs in the quick tier), and random invoices of the C01 generator with random series/code; each calculated, serialised, parsed and recalculated three times with bytes and digests compared, parse/serialise identity, non-mutation by validate/digest/verify/extract, and a second process with GOMAXPROCS=1; every evaluated document is non-trivial; distinct by name", nil)
}

var hugeAmount = regexp.MustCompile(`"--[0-9]|[0-9]\.-[0-9]|"-?[0-9]{16,}`)

var codeAlphabet = []string{"A", "B", "7", "0", "-", ".", "/", " ", "  ", "é", "_", "a", "x", "#", ",", "Z9"}

func randCode(c *core.Ctx) string {
	n := 1 + c.Rng.Intn(6)
	var sb strings.Builder
	for i := 0; i < n; i++ {
		sb.WriteString(codeAlphabet[c.Rng.Intn(len(codeAlphabet))])
	}
	return sb.String()
}
