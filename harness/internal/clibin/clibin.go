// Package clibin builds and runs the real gobl command line binary from the
// tree under test (internal/cli cannot be imported from outside the module).
package clibin

import (
	"bytes"
	"fmt"
	"io"
	"net"
	"net/http"
	"os"
	"os/exec"
	"path/filepath"
	"strings"
	"time"

	"verifharness/internal/core"
)

func goEnv() []string {
	return append(os.Environ(), "GOFLAGS=-mod=mod", "GOPROXY=off", "GOSUMDB=off", "GOTOOLCHAIN=local")
}

// Build builds <root>/harness/bin/gobl from <repo>/cmd/gobl.
func Build(c *core.Ctx) (string, error) {
	bin := filepath.Join(c.Root, "harness", "bin")
	_ = os.MkdirAll(bin, 0o755)
	gobl := filepath.Join(bin, "gobl")
	cmd := exec.Command("go", "build", "-o", gobl, "./cmd/gobl")
	cmd.Dir = c.Repo
	cmd.Env = goEnv()
	if out, e := cmd.CombinedOutput(); e != nil {
		return "", fmt.Errorf("go build gobl: %v: %s", e, out)
	}
	return gobl, nil
}

// Res is the outcome of one CLI run.
type Res struct {
	Out, Err string
	Code     int
	TimedOut bool
}

// Run runs the binary with stdin and a timeout.
func Run(gobl, home string, stdin []byte, timeout time.Duration, args ...string) Res {
	cmd := exec.Command(gobl, args...)
	cmd.Env = append(os.Environ(), "HOME="+home)
	cmd.Stdin = bytes.NewReader(stdin)
	var so, se bytes.Buffer
	cmd.Stdout, cmd.Stderr = &so, &se
	if err := cmd.Start(); err != nil {
		return Res{Err: err.Error(), Code: -1}
	}
	done := make(chan error, 1)
	go func() { done <- cmd.Wait() }()
	select {
	case err := <-done:
		code := 0
		if err != nil {
			code = 1
			if ee, ok := err.(*exec.ExitError); ok {
				code = ee.ExitCode()
			}
		}
		return Res{so.String(), se.String(), code, false}
	case <-time.After(timeout):
		_ = cmd.Process.Kill()
		<-done
		return Res{so.String(), se.String(), -1, true}
	}
}

// Server is a running `gobl serve`.
type Server struct {
	Cmd *exec.Cmd
	URL string
	Log *bytes.Buffer
}

// Serve starts `gobl serve` on a free loopback port.
func Serve(gobl, home string, procs int) (*Server, error) {
	for attempt := 0; attempt < 5; attempt++ {
		l, err := net.Listen("tcp", "127.0.0.1:0")
		if err != nil {
			return nil, err
		}
		port := l.Addr().(*net.TCPAddr).Port
		_ = l.Close()
		cmd := exec.Command(gobl, "serve", "-p", fmt.Sprint(port), "-k", filepath.Join(home, "key.jwk"))
		cmd.Env = append(os.Environ(), "HOME="+home, fmt.Sprintf("GOMAXPROCS=%d", procs))
		var lg bytes.Buffer
		cmd.Stdout, cmd.Stderr = &lg, &lg
		if err := cmd.Start(); err != nil {
			return nil, err
		}
		s := &Server{Cmd: cmd, URL: fmt.Sprintf("http://127.0.0.1:%d", port), Log: &lg}
		for i := 0; i < 100; i++ {
			time.Sleep(30 * time.Millisecond)
			resp, err := http.Get(s.URL + "/")
			if err == nil {
				b, _ := io.ReadAll(resp.Body)
				_ = resp.Body.Close()
				if strings.Contains(string(b), "gobl") {
					return s, nil
				}
			}
		}
		s.Stop()
	}
	return nil, fmt.Errorf("gobl serve did not come up")
}

// Stop kills the server.
func (s *Server) Stop() {
	if s.Cmd != nil && s.Cmd.Process != nil {
		_ = s.Cmd.Process.Kill()
		_, _ = s.Cmd.Process.Wait()
	}
}

// Bulk posts a request stream on a connection the server will not reuse
// ("Connection: close": see the C15 finding about keep-alive connections).
func (s *Server) Bulk(body []byte, timeout time.Duration) ([]byte, error) {
	req, err := http.NewRequest("POST", s.URL+"/bulk", bytes.NewReader(body))
	if err != nil {
		return nil, err
	}
	req.Close = true
	cl := &http.Client{Timeout: timeout, Transport: &http.Transport{DisableKeepAlives: true}}
	resp, err := cl.Do(req)
	if err != nil {
		return nil, err
	}
	defer resp.Body.Close() //nolint:errcheck
	return io.ReadAll(resp.Body)
}
