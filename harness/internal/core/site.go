package core

import (
	"fmt"
	"runtime/debug"
	"strings"
)

const goblModule = "github.com/invopop/gobl/"

// PanicSite extracts from a stack (runtime/debug.Stack taken inside the
// deferred recover) the innermost function of the gobl module on the
// panicking goroutine's stack, e.g. "bill.(*Line).Normalize" or
// "addons/gr/mydata.requiresValidCustomer".  Line numbers, arguments and
// generic instantiation brackets are dropped, so the site survives refactors
// that keep the function.  "" when no gobl frame is on the stack.
func PanicSite(stack []byte) string {
	lines := strings.Split(string(stack), "\n")
	// frames start after the (last) "panic(" frame: everything above it is
	// the recover machinery
	start := 0
	for i, l := range lines {
		if strings.HasPrefix(l, "panic(") || strings.HasPrefix(l, "runtime.sigpanic") || strings.HasPrefix(l, "runtime.goPanic") || strings.HasPrefix(l, "runtime.panic") {
			start = i + 1
		}
	}
	for i := start; i < len(lines); i++ {
		l := lines[i]
		if strings.HasPrefix(l, "\t") || !strings.HasPrefix(l, goblModule) {
			continue
		}
		fn := strings.TrimPrefix(l, goblModule)
		// drop the argument list: last "(" that opens the arguments
		if j := strings.LastIndex(fn, "("); j > 0 {
			fn = fn[:j]
		}
		fn = strings.ReplaceAll(fn, "[...]", "")
		return fn
	}
	return ""
}

// ProtectSite runs f; on a panic it returns the call site (see PanicSite),
// the panic message and the stack.
func ProtectSite(f func()) (site, msg, stack string) {
	defer func() {
		if r := recover(); r != nil {
			st := debug.Stack()
			site = PanicSite(st)
			if site == "" {
				site = "(no gobl frame)"
			}
			msg = fmt.Sprint(r)
			stack = string(st)
		}
	}()
	f()
	return
}
