// Package core holds what every property harness shares: the run context,
// the model process, the deterministic PRNG, replay files and the partial
// evidence record that ./check merges with the proof results.
package core

import (
	"bufio"
	"bytes"
	"encoding/json"
	"fmt"
	"math/rand"
	"os"
	"os/exec"
	"path/filepath"
	"sort"
	"strings"
	"sync"
	"time"
)

// Ctx is the context of one run of one property check.
type Ctx struct {
	Prop     string
	Tier     string // quick | thorough
	Seed     int64
	Root     string // /verif
	Repo     string // /repo
	ModelBin string
	Search   bool // a proof obligation is already broken: spend more on the witness search
	Rng      *rand.Rand

	mu         sync.Mutex
	start      time.Time
	Violations []Violation
	Known      map[string]int
	KnownWhat  map[string]string
	Counters   map[string]int64
	Samples    []any
	evalKeys   []string
	Notes      []string
	distinct   map[string]struct{}
	Evals      int64
	Disagree   int64 // correspondence disagreements looked at
	known      *KnownFile
	ReplayFile string
}

// Violation is a reported failure of the property (or of the tie).
type Violation struct {
	What      string `json:"what"`
	Replay    string `json:"replay"`
	NoWitness bool   `json:"no_failing_input_found"`
}

// KnownFile is /verif/known_findings.json.
type KnownFile struct {
	Findings []KnownFinding `json:"findings"`
	Fixed    []string       `json:"fixed"`
}

// KnownFinding is one listed genuine defect, matched by classifier only.
type KnownFinding struct {
	Property   string          `json:"property"`
	ID         string          `json:"id"`
	Classifier string          `json:"classifier"`
	What       string          `json:"what"`
	Example    json.RawMessage `json:"example,omitempty"`
}

// NewCtx builds a context.
func NewCtx(prop, tier string, seed int64, root, repo, model string, search bool) *Ctx {
	c := &Ctx{Prop: prop, Tier: tier, Seed: seed, Root: root, Repo: repo, ModelBin: model, Search: search,
		Rng: rand.New(rand.NewSource(seed)), start: time.Now(),
		Known: map[string]int{}, KnownWhat: map[string]string{}, Counters: map[string]int64{}, distinct: map[string]struct{}{}}
	c.known = &KnownFile{}
	if b, err := os.ReadFile(filepath.Join(root, "known_findings.json")); err == nil {
		_ = json.Unmarshal(b, c.known)
	}
	return c
}

// Thorough reports the tier.
func (c *Ctx) Thorough() bool { return c.Tier == "thorough" }

// Pick returns q for the quick tier and t for the thorough tier (doubled when searching).
func (c *Ctx) Pick(q, t int) int {
	n := q
	if c.Thorough() {
		n = t
	}
	if c.Search {
		n *= 2
	}
	return n
}

// Count increments a named distribution counter.
func (c *Ctx) Count(name string, n int64) {
	c.mu.Lock()
	c.Counters[name] += n
	c.mu.Unlock()
}

// Eval records one evaluated case; key identifies it for the distinct count
// when nontrivial is true.
func (c *Ctx) Eval(key string, nontrivial bool) {
	c.mu.Lock()
	c.Evals++
	if nontrivial {
		c.distinct[key] = struct{}{}
	}
	// checks that write no samples of their own still show what was evaluated: the keys of the
	// first few evaluated cases (a key identifies the case; see Finish)
	if len(c.evalKeys) < 4 && key != "" && len(key) <= 400 {
		c.evalKeys = append(c.evalKeys, key)
	}
	c.mu.Unlock()
}

// Sample keeps up to 8 example cases for the evidence file.
func (c *Ctx) Sample(s any) {
	c.mu.Lock()
	if len(c.Samples) < 8 {
		c.Samples = append(c.Samples, s)
	}
	c.mu.Unlock()
}

// Note adds a free-text remark to the evidence.
func (c *Ctx) Note(format string, a ...any) {
	c.mu.Lock()
	c.Notes = append(c.Notes, fmt.Sprintf(format, a...))
	c.mu.Unlock()
}

// KnownClassifier reports whether a classifier is listed for this property.
func (c *Ctx) KnownClassifier(classifier string) (KnownFinding, bool) {
	for _, k := range c.known.Findings {
		if k.Property == c.Prop && k.Classifier == classifier {
			return k, true
		}
	}
	return KnownFinding{}, false
}

// Fail reports a property violation with a concrete witness, unless the
// classifier (may be empty) is a listed known finding.
func (c *Ctx) Fail(classifier, what string, replay any) {
	c.mu.Lock()
	defer c.mu.Unlock()
	c.Disagree++
	if classifier != "" {
		for _, k := range c.known.Findings {
			if k.Property == c.Prop && k.Classifier == classifier {
				c.Known[classifier]++
				c.KnownWhat[classifier] = k.What
				return
			}
		}
	}
	if len(c.Violations) >= 5 {
		return
	}
	path := c.writeReplay(map[string]any{"property": c.Prop, "kind": "witness", "classifier": classifier, "what": what, "case": replay})
	c.Violations = append(c.Violations, Violation{What: what, Replay: path})
	fmt.Printf("VIOLATION property=%s replay=%s\n", c.Prop, path)
	fmt.Fprintf(os.Stderr, "  violation: %s\n", what)
}

// TieBroken reports that the model/code correspondence (or an obligation) no
// longer checks although no failing input for the property was found.
func (c *Ctx) TieBroken(name, what string, detail any) {
	c.mu.Lock()
	defer c.mu.Unlock()
	c.Disagree++
	for _, v := range c.Violations {
		if v.NoWitness && strings.HasPrefix(v.What, name) {
			return
		}
	}
	if len(c.Violations) >= 8 {
		return
	}
	path := c.writeReplay(map[string]any{"property": c.Prop, "kind": "no-failing-input-found", "broken": name, "what": what, "detail": detail})
	c.Violations = append(c.Violations, Violation{What: name + ": " + what, Replay: path, NoWitness: true})
	fmt.Printf("VIOLATION property=%s replay=%s no-failing-input-found\n", c.Prop, path)
	fmt.Fprintf(os.Stderr, "  tie broken: %s: %s\n", name, what)
}

func (c *Ctx) writeReplay(v map[string]any) string {
	dir := filepath.Join(c.Root, "replays")
	_ = os.MkdirAll(dir, 0o755)
	v["seed"] = c.Seed
	v["tier"] = c.Tier
	b, _ := json.MarshalIndent(v, "", " ")
	path := filepath.Join(dir, fmt.Sprintf("%s-%d-%d.json", c.Prop, c.Seed, len(c.Violations)+1))
	_ = os.WriteFile(path, b, 0o644)
	return path
}

// Finish prints known findings, writes the partial evidence and returns the exit code.
func (c *Ctx) Finish(rule string, extra map[string]any) int {
	keys := make([]string, 0, len(c.Known))
	for k := range c.Known {
		keys = append(keys, k)
	}
	sort.Strings(keys)
	for _, k := range keys {
		fmt.Printf("KNOWN-FINDING: property=%s %s [%s, %d hits]\n", c.Prop, c.KnownWhat[k], k, c.Known[k])
	}
	if len(c.Samples) == 0 {
		for _, k := range c.evalKeys {
			c.Samples = append(c.Samples, map[string]any{"evaluated_case_key": k})
		}
	}
	if c.Samples == nil {
		c.Samples = []any{}
	}
	cov := map[string]any{
		"evaluations":                   c.Evals,
		"distinct_nontrivial":           len(c.distinct),
		"rule":                          rule,
		"samples":                       c.Samples,
		"traces_validated_against_impl": c.Evals,
		"disagreements_checked":         c.Disagree,
		"distribution":                  c.Counters,
		"known_findings_hit":            c.Known,
		"notes":                         c.Notes,
	}
	for k, v := range extra {
		cov[k] = v
	}
	out := map[string]any{"property_id": c.Prop, "tier": c.Tier, "seed": c.Seed, "coverage": cov,
		"violations": len(c.Violations), "violation_list": c.Violations, "drive_wall_s": time.Since(c.start).Seconds()}
	b, _ := json.MarshalIndent(out, "", " ")
	_ = os.MkdirAll(filepath.Join(c.Root, "evidence"), 0o755)
	_ = os.WriteFile(filepath.Join(c.Root, "evidence", c.Prop+".drive.json"), b, 0o644)
	if len(c.Violations) > 0 {
		return 1
	}
	return 0
}

// Model runs the Lean driver over a batch of request bodies ("<tokens…>" without
// id and property) and returns the responses in order.
func (c *Ctx) Model(reqs []string) ([]string, error) {
	return c.ModelProp(c.Prop, reqs)
}

// ModelProp is Model for an explicit property tag.
func (c *Ctx) ModelProp(prop string, reqs []string) ([]string, error) {
	if len(reqs) == 0 {
		return nil, nil
	}
	const shard = 16
	n := len(reqs)
	out := make([]string, n)
	per := (n + shard - 1) / shard
	if per < 2000 {
		per = n
	}
	var wg sync.WaitGroup
	var firstErr error
	var emu sync.Mutex
	for lo := 0; lo < n; lo += per {
		hi := lo + per
		if hi > n {
			hi = n
		}
		wg.Add(1)
		go func(lo, hi int) {
			defer wg.Done()
			if err := c.modelRange(prop, reqs, out, lo, hi); err != nil {
				emu.Lock()
				if firstErr == nil {
					firstErr = err
				}
				emu.Unlock()
			}
		}(lo, hi)
	}
	wg.Wait()
	return out, firstErr
}

func (c *Ctx) modelRange(prop string, reqs, out []string, lo, hi int) error {
	cmd := exec.Command(c.ModelBin)
	var in bytes.Buffer
	for i := lo; i < hi; i++ {
		fmt.Fprintf(&in, "%d %s %s\n", i, prop, reqs[i])
	}
	cmd.Stdin = &in
	var errb bytes.Buffer
	cmd.Stderr = &errb
	stdout, err := cmd.StdoutPipe()
	if err != nil {
		return err
	}
	if err := cmd.Start(); err != nil {
		return err
	}
	sc := bufio.NewScanner(stdout)
	sc.Buffer(make([]byte, 1<<20), 1<<28)
	i := lo
	for sc.Scan() {
		line := sc.Text()
		sp := strings.IndexByte(line, ' ')
		if sp < 0 || i >= hi {
			return fmt.Errorf("model: unexpected line %q", line)
		}
		if line[:sp] != fmt.Sprint(i) {
			return fmt.Errorf("model: id mismatch: want %d got %q", i, line)
		}
		out[i] = line[sp+1:]
		i++
	}
	if err := cmd.Wait(); err != nil {
		return fmt.Errorf("model process: %v: %s", err, errb.String())
	}
	if i != hi {
		return fmt.Errorf("model: %d responses for %d requests (stderr: %s)", i-lo, hi-lo, errb.String())
	}
	return nil
}

// Hex encodes a string for the line protocol ("-" for empty).
func Hex(s string) string {
	if s == "" {
		return "-"
	}
	return fmt.Sprintf("%x", s)
}

// Protect runs f and converts a panic into a string.
func Protect(f func()) (panicked string) {
	defer func() {
		if r := recover(); r != nil {
			panicked = fmt.Sprint(r)
		}
	}()
	f()
	return ""
}

// ReplayCase loads the "case" member of the replay file given with -replay
// into v; it returns false when no replay was requested.
func (c *Ctx) ReplayCase(v any) bool {
	if c.ReplayFile == "" {
		return false
	}
	b, err := os.ReadFile(c.ReplayFile)
	if err != nil {
		fmt.Fprintln(os.Stderr, "replay:", err)
		os.Exit(2)
	}
	var r struct {
		Case json.RawMessage `json:"case"`
	}
	if err := json.Unmarshal(b, &r); err != nil || len(r.Case) == 0 {
		fmt.Fprintln(os.Stderr, "replay: no case in file")
		os.Exit(2)
	}
	// a case may be wrapped as {"case": {...}, "go": ..., ...}
	var inner struct {
		Case json.RawMessage `json:"case"`
	}
	if json.Unmarshal(r.Case, &inner) == nil && len(inner.Case) > 0 {
		r.Case = inner.Case
	}
	if err := json.Unmarshal(r.Case, v); err != nil {
		fmt.Fprintln(os.Stderr, "replay:", err)
		os.Exit(2)
	}
	return true
}
