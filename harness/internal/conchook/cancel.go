package conchook

import (
	"context"
	"fmt"
	"io"
	"math/rand"
	"runtime"
	"strings"
	"sync"
	"time"

	"verifharness/internal/conc"
)

/*
The cancellation workload.  Command line operations read their input through
iotools.CancelableReader: a Read hands the caller's buffer to a helper
goroutine and returns as soon as the context is cancelled, while the helper
may still be blocked in the underlying reader — and delivers its bytes LATER,
when nobody waits for them any more.

VICTIMS are operations whose context is cancelled while exactly that read is
pending (the reader signals that it blocks, the harness cancels, the
operation returns, and only then are the bytes released).  BYSTANDERS are
independent operations on other documents with an undisturbed context.  The
property: a cancelled operation never affects another operation — every
bystander's result equals the result it gave sequentially beforehand.

Two schedules:

  gated  the stale bytes of a victim are released at the moment a bystander's
         reader has put its own bytes into the buffer it was given and has not
         returned yet (the worst moment for anything the two reads might
         share); deterministic, shows as a result mismatch;
  free   victims are released by the clock while bystanders run: no
         synchronisation between the stale write and the bystanders' reads,
         which is what the race detector needs to report shared memory.
*/

// gateReader delivers `head` bytes at once, then blocks in the next Read
// until released and delivers the rest: the bytes arrive after the
// cancellation.
type gateReader struct {
	mu      sync.Mutex
	doc     []byte
	head    int
	pos     int
	state   int
	started chan struct{} // closed when the blocking Read begins
	release chan struct{} // the blocking Read waits for this
	wrote   chan struct{} // closed once the blocking Read has delivered its bytes
}

func newGate(doc []byte, head int) *gateReader {
	if head >= len(doc) {
		head = 0
	}
	return &gateReader{doc: doc, head: head, started: make(chan struct{}), release: make(chan struct{}), wrote: make(chan struct{})}
}

func (g *gateReader) Read(p []byte) (int, error) {
	g.mu.Lock()
	defer g.mu.Unlock()
	if g.state == 0 && g.head > 0 {
		g.state = 1
		n := copy(p, g.doc[:g.head])
		g.pos = n
		return n, nil
	}
	if g.state <= 1 {
		g.state = 2
		close(g.started)
		<-g.release
		n := copy(p, g.doc[g.pos:])
		g.pos += n
		close(g.wrote)
		return n, nil
	}
	if g.pos >= len(g.doc) {
		return 0, io.EOF
	}
	n := copy(p, g.doc[g.pos:])
	g.pos += n
	return n, nil
}

// pacedReader delivers a document in pieces and calls `after` when the bytes
// of a piece are in the caller's buffer, before Read returns.
type pacedReader struct {
	doc   []byte
	pos   int
	chunk int
	after func()
}

func (r *pacedReader) Read(p []byte) (int, error) {
	if r.pos >= len(r.doc) {
		return 0, io.EOF
	}
	q := p
	if r.chunk > 0 && len(q) > r.chunk {
		q = q[:r.chunk]
	}
	n := copy(q, r.doc[r.pos:])
	r.pos += n
	if r.after != nil {
		r.after()
	}
	return n, nil
}

// CancelCfg sizes the workload; it is also the replay case.
type CancelCfg struct {
	Seed       int64  `json:"seed"`
	Procs      int    `json:"procs"`
	Mode       string `json:"mode"` // gated | free
	Rounds     int    `json:"rounds"`
	Victims    int    `json:"victims"`
	Bystanders int    `json:"bystanders"`
	PerBy      int    `json:"ops_per_bystander"`
}

// CancelReport is what the workload found and did.
type CancelReport struct {
	Problems []Problem
	Counters map[string]int64
}

type stale struct {
	mu   sync.Mutex
	list []*gateReader
}

func (s *stale) push(g *gateReader) { s.mu.Lock(); s.list = append(s.list, g); s.mu.Unlock() }
func (s *stale) pop() *gateReader {
	s.mu.Lock()
	defer s.mu.Unlock()
	if len(s.list) == 0 {
		return nil
	}
	g := s.list[0]
	s.list = s.list[1:]
	return g
}

func waitOr(ch <-chan struct{}, d time.Duration) bool {
	select {
	case <-ch:
		return true
	case <-time.After(d):
		return false
	}
}

// CancelPhase runs the workload for one configuration.  GOMAXPROCS is set
// for the duration and restored.
func CancelPhase(jobs []Job, cfg CancelCfg) CancelReport {
	rep := CancelReport{Counters: map[string]int64{}}
	if len(jobs) == 0 {
		return rep
	}
	old := runtime.GOMAXPROCS(0)
	defer runtime.GOMAXPROCS(old)
	if cfg.Procs > 0 {
		runtime.GOMAXPROCS(cfg.Procs)
	}
	rng := rand.New(rand.NewSource(cfg.Seed))
	var pmu sync.Mutex
	problem := func(f string, a ...any) {
		pmu.Lock()
		if len(rep.Problems) < 12 {
			rep.Problems = append(rep.Problems, Problem{What: fmt.Sprintf(f, a...), Cancel: cfg, Procs: cfg.Procs})
		}
		pmu.Unlock()
	}
	count := func(k string, n int64) { pmu.Lock(); rep.Counters[k] += n; pmu.Unlock() }
	tag := fmt.Sprintf("hook.cancel.%s.gomaxprocs=%d.", cfg.Mode, cfg.Procs)

	for round := 0; round < cfg.Rounds; round++ {
		pending := &stale{}
		var all []*gateReader

		// one victim: started, cancelled while its read is pending, returns
		victim := func(j Job, head int, pre bool, relAfter time.Duration) {
			g := newGate(j.Op.Data, head)
			ctx, cancel := context.WithCancel(context.Background())
			defer cancel()
			if pre {
				cancel()
			}
			res := make(chan string, 1)
			go func() { res <- j.Op.Run(ctx, g) }()
			var r string
			select {
			case <-g.started:
				cancel()
				select {
				case r = <-res:
				case <-time.After(60 * time.Second):
					problem("a cancelled %s (%s) did not return within 60 s of the cancellation", j.Op.Kind, j.Op.Name)
					close(g.release)
					return
				}
			case r = <-res:
				// returned before the helper goroutine reached the blocking read (context
				// cancelled beforehand): the read is still made, and abandoned
				count(tag+"victim.returned-before-its-read-began", 1)
			case <-time.After(60 * time.Second):
				problem("%s (%s) did not start reading its input within 60 s", j.Op.Kind, j.Op.Name)
				return
			}
			switch {
			case isCtxCancelErr(r):
				count(tag+"victim.answers-context-canceled", 1)
			case r == j.Want:
				count(tag+"victim.answers-as-if-not-cancelled", 1)
			case strings.HasPrefix(r, "E:"):
				count(tag+"victim.answers-other-error", 1)
			default:
				problem("a cancelled %s (%s) returned a result that is neither an error nor its sequential result: %s", j.Op.Kind, j.Op.Name, FirstDiff(j.Want, r))
			}
			pmu.Lock()
			all = append(all, g)
			pmu.Unlock()
			if relAfter >= 0 {
				// free schedule: the bytes arrive by the clock, nobody waits for them
				go func() {
					time.Sleep(relAfter)
					close(g.release)
				}()
			} else {
				pending.push(g)
			}
		}
		type vplan struct {
			j     Job
			head  int
			pre   bool
			delay time.Duration
		}
		plans := make([]vplan, cfg.Victims)
		for i := range plans {
			j := jobs[rng.Intn(len(jobs))]
			p := vplan{j: j, delay: -1}
			switch rng.Intn(4) {
			case 0:
				p.head = 1 + rng.Intn(len(j.Op.Data))
			case 1:
				p.pre = true
			}
			if cfg.Mode == "free" {
				p.delay = time.Duration(rng.Intn(400)) * time.Microsecond
			}
			plans[i] = p
		}
		type bplan struct {
			j     Job
			chunk int
			pace  int
		}
		bplans := make([][]bplan, cfg.Bystanders)
		for b := range bplans {
			for k := 0; k < cfg.PerBy; k++ {
				bplans[b] = append(bplans[b], bplan{jobs[rng.Intn(len(jobs))], []int{0, 512, 100, 4096, 33}[rng.Intn(5)], rng.Intn(4)})
			}
		}
		bystander := func(plan []bplan) {
			for _, bp := range plan {
				rd := &pacedReader{doc: bp.j.Op.Data, chunk: bp.chunk}
				if cfg.Mode == "gated" {
					rd.after = func() {
						if g := pending.pop(); g != nil {
							close(g.release)
							if !waitOr(g.started, 2*time.Second) {
								return // that operation never read its input
							}
							if !waitOr(g.wrote, 30*time.Second) {
								problem("the abandoned read of a cancelled operation never completed after its reader was released")
							}
							count(tag+"stale-bytes-delivered-inside-a-bystander-read", 1)
						}
					}
				} else {
					pace := bp.pace
					rd.after = func() {
						switch pace {
						case 1:
							runtime.Gosched()
						case 2:
							time.Sleep(20 * time.Microsecond)
						}
					}
				}
				got := bp.j.Op.Run(context.Background(), rd)
				count(tag+"bystander."+bp.j.Op.Kind, 1)
				if got != bp.j.Want {
					problem("result of an uncancelled %s (%s) differs from its sequential result while other operations were being cancelled (%s schedule, GOMAXPROCS=%d, round %d): %s",
						bp.j.Op.Kind, bp.j.Op.Name, cfg.Mode, cfg.Procs, round, FirstDiff(bp.j.Want, got))
				}
			}
		}

		var wg sync.WaitGroup
		if cfg.Mode == "gated" {
			for _, p := range plans {
				wg.Add(1)
				go func(p vplan) { defer wg.Done(); victim(p.j, p.head, p.pre, -1) }(p)
			}
			wg.Wait()
			for _, bp := range bplans {
				wg.Add(1)
				go func(bp []bplan) { defer wg.Done(); bystander(bp) }(bp)
			}
			wg.Wait()
		} else {
			for _, bp := range bplans {
				wg.Add(1)
				go func(bp []bplan) { defer wg.Done(); bystander(bp) }(bp)
			}
			wg.Add(1)
			go func() {
				defer wg.Done()
				var vg sync.WaitGroup
				for i, p := range plans {
					vg.Add(1)
					go func(p vplan) { defer vg.Done(); victim(p.j, p.head, p.pre, p.delay) }(p)
					if i%4 == 3 {
						vg.Wait()
					}
				}
				vg.Wait()
			}()
			wg.Wait()
		}
		// nothing stays behind: release what no bystander consumed, wait for every abandoned read
		for g := pending.pop(); g != nil; g = pending.pop() {
			close(g.release)
		}
		pmu.Lock()
		gs := all
		pmu.Unlock()
		for _, g := range gs {
			if !waitOr(g.started, 2*time.Second) {
				continue // that operation never read its input
			}
			if !waitOr(g.wrote, 30*time.Second) {
				problem("the abandoned read of a cancelled operation never completed after its reader was released")
			}
		}
		count(tag+"rounds", 1)
		count(tag+"victims", int64(len(gs)))
	}
	return rep
}

// Setup makes the operations and their sequential results for a seed.
func Setup(seed int64, inputs, outputs []conc.Doc, per int) (jobs []Job, panics int) {
	rng := rand.New(rand.NewSource(seed))
	return Sequential(Ops(rng, inputs, outputs, per))
}
