package conchook

import (
	"bytes"
	"context"
	"crypto/sha256"
	"encoding/hex"
	"encoding/json"
	"errors"
	"fmt"
	"io"
	"math/rand"
	"runtime"
	"sort"
	"strings"
	"sync"
	"sync/atomic"
	"time"

	"github.com/invopop/gobl/verifhook"

	"verifharness/internal/core"
)

/*
What the unchanged dispatcher does with a request it cannot read completely
(internal/cli/bulk.go, the `err != nil` branch of the decode loop), pinned by
the judge below:

  - the requests that were read completely before it are answered exactly as
    if the stream had ended cleanly there: one response each, own req_id, own
    1-based seq_id, the payload / error of the standalone operation — how the
    stream ends has no influence on them;
  - the unreadable request gets NO response of its own;
  - its position (n+1) is the seq_id of the single final marker, which comes
    last, has is_final, no payload, and an error {code 422, message = text of
    the decode / read error} unless the input ended cleanly (io.EOF between
    values: no error);  its req_id is whatever the failed decode left in the
    request (only a wrongly typed member leaves one, a syntax error, a value
    cut short or a failing reader leave "");
  - nothing after the first unreadable value is read.
*/

// Ending says how the request stream ends after the complete requests.
type Ending struct {
	// eof: clean end (maybe trailing white space); syntax: a value that is not
	// JSON; type: a JSON value with a wrongly typed member; cut: a request cut
	// short inside the value, then EOF; readerr: the reader fails with a
	// non-EOF error (between requests, or inside one when Cut is set)
	Kind     string `json:"kind"`
	ReadErr  string `json:"read_err,omitempty"`
	CutClass string `json:"cut_class,omitempty"`
	CutAt    int    `json:"cut_at,omitempty"`
}

// SReq is one complete request of a stream.
type SReq struct {
	ReqID  string `json:"req_id"`
	Action string `json:"action"`
	Want   string `json:"-"`
}

// Stream is one bulk input together with the way it is delivered.
type Stream struct {
	Body   []byte `json:"body"`
	Bounds []int  `json:"bounds,omitempty"` // offsets before which the reader pauses
	Pauses []int  `json:"pauses,omitempty"` // per bound: >= 0 microseconds of sleep; -k: until k responses were received
	End    Ending `json:"end"`
	Pipe   bool   `json:"pipe,omitempty"` // deliver through an io.Pipe fed by a writer goroutine
	// microseconds the consumer waits after each response (-1: yields)
	ConsumerDelay int `json:"consumer_delay,omitempty"`
	// > 0: the CALLER cancels the context it gave to Bulk after that many
	// responses: then (and only then) a reply may be a `context canceled` error
	CancelAfter int    `json:"cancel_after,omitempty"`
	Arrangement string `json:"arrangement,omitempty"`
	// request ids of complete requests placed AFTER the first unreadable value (never read)
	After []string `json:"after,omitempty"`

	Reqs    []SReq `json:"-"`
	TailID  string `json:"-"`
	TailErr bool   `json:"-"`
	TailMsg string `json:"-"`
	// how the decode loop ends, in the model's terms: eof | cut | readerr (Ending) or broken (an Item)
	TailKind string `json:"-"`
}

// mirror of the request structure, under the same type name (the text of a
// type error names the struct)
type BulkRequest struct {
	Action  string          `json:"action"`
	ReqID   string          `json:"req_id"`
	Payload json.RawMessage `json:"payload"`
	Indent  bool            `json:"indent"`
}

type endReader struct {
	r   *bytes.Reader
	err error
}

func (e *endReader) Read(p []byte) (int, error) {
	n, err := e.r.Read(p)
	if err == io.EOF {
		return n, e.err
	}
	return n, err
}

func (st *Stream) endErr() error {
	if st.End.ReadErr != "" {
		return errors.New(st.End.ReadErr)
	}
	return io.EOF
}

// Prepare derives from the bytes alone what the stream consists of: the
// complete requests (with their standalone result: of the pool when the
// generator made the stream, recomputed when it comes from a replay file) and
// what the failed decode leaves behind.
func (st *Stream) Prepare(wants []string) error {
	dec := json.NewDecoder(&endReader{bytes.NewReader(st.Body), st.endErr()})
	st.Reqs = nil
	for {
		var m BulkRequest
		err := dec.Decode(&m)
		if err != nil {
			st.TailID = m.ReqID
			st.TailErr = err != io.EOF
			st.TailMsg = ""
			var se *json.SyntaxError
			var te *json.UnmarshalTypeError
			switch {
			case err == io.EOF:
				st.TailKind = "eof"
			case err == io.ErrUnexpectedEOF:
				st.TailKind = "cut"
			case errors.As(err, &se), errors.As(err, &te):
				st.TailKind = "broken"
			default:
				st.TailKind = "readerr"
			}
			if st.TailErr {
				// a type error at the top level names the Go type with its package
				st.TailMsg = strings.ReplaceAll(err.Error(), "conchook.BulkRequest", "cli.BulkRequest")
			}
			break
		}
		r := SReq{ReqID: m.ReqID, Action: m.Action}
		k := len(st.Reqs)
		switch {
		case wants != nil && k < len(wants):
			r.Want = wants[k]
		case wants != nil:
			return fmt.Errorf("stream has more complete requests than the generator made (%d)", len(wants))
		default:
			if op, ok := FromBulk(m.Action, m.Payload); ok {
				r.Want = op.Standalone()
			} else if m.Action == "ping" {
				r.Want = `P:{"pong":true}`
			} else if m.Action == "sleep" {
				r.Want = `P:{"sleep":"done"}`
			} else if m.Action == "keygen" {
				r.Want = "P:KEYPAIR-OK"
			} else {
				r.Want = soloAnswer(Item{Action: m.Action, Payload: m.Payload})
			}
		}
		st.Reqs = append(st.Reqs, r)
	}
	if wants != nil && len(st.Reqs) != len(wants) {
		return fmt.Errorf("stream has %d complete requests, the generator made %d", len(st.Reqs), len(wants))
	}
	return nil
}

/* ---------- generator ---------- */

type member struct{ k, v string }

func jstr(s string) string { b, _ := json.Marshal(s); return string(b) }

// encodeReq writes one request with its members in random order and random
// white space between the tokens of the outer object.
func encodeReq(rng *rand.Rand, it Item, id string, withID bool) []byte {
	ms := []member{{"action", jstr(it.Action)}}
	if withID {
		ms = append(ms, member{"req_id", jstr(id)})
	}
	if it.Payload != nil {
		ms = append(ms, member{"payload", string(it.Payload)})
	}
	if rng.Intn(5) == 0 {
		ms = append(ms, member{"indent", "true"})
	}
	if rng.Intn(3) == 0 {
		// members the dispatcher ignores: numbers, literals, nesting for the cut classes
		ms = append(ms, member{"x-note", `[1,-2.5e3,{"k":null,"t":true,"s":"a\"b\\u00e9"},0.125]`})
	}
	if rng.Intn(3) == 0 {
		ms = append(ms, member{"x-n", []string{"-12.5e3", "1234567", "null", "false"}[rng.Intn(4)]})
	}
	rng.Shuffle(len(ms), func(i, j int) { ms[i], ms[j] = ms[j], ms[i] })
	ws := func() string {
		switch rng.Intn(6) {
		case 0:
			return " "
		case 1:
			return "\n\t"
		}
		return ""
	}
	var sb bytes.Buffer
	sb.WriteString("{" + ws())
	for i, m := range ms {
		if i > 0 {
			sb.WriteString("," + ws())
		}
		sb.WriteString(jstr(m.k) + ws() + ":" + ws() + m.v + ws())
	}
	sb.WriteString("}")
	return sb.Bytes()
}

// CutClasses gives for every offset 0 < o < len(b) the class of the place at
// which a stream cut there ends (b is one JSON object).
func CutClasses(b []byte) []string {
	cls := make([]string, len(b))
	var inStr, esc, inNum, inLit, isKey bool
	depth := 0
	last := byte(0) // last structural event: { [ , : v(alue end)
	var stack []byte
	for i := 0; i < len(b); i++ {
		deep := ""
		if depth > 1 {
			deep = ".nested"
		}
		switch {
		case esc:
			cls[i] = "in-string-escape" + deep
		case inStr && isKey:
			cls[i] = "in-member-name" + deep
		case inStr:
			cls[i] = "in-string" + deep
		case inNum:
			cls[i] = "in-number" + deep
		case inLit:
			cls[i] = "in-literal" + deep
		case last == '{' || last == '[':
			cls[i] = "after-open" + deep
		case last == ',':
			cls[i] = "between-members(after-comma)" + deep
		case last == ':':
			cls[i] = "between-name-and-value(after-colon)" + deep
		default:
			cls[i] = "after-value-before-comma-or-close" + deep
		}
		ch := b[i]
		if inStr {
			switch {
			case esc:
				esc = false
			case ch == '\\':
				esc = true
			case ch == '"':
				inStr = false
				if !isKey {
					last = 'v'
				} else {
					last = 'k'
				}
			}
			continue
		}
		if inNum {
			if strings.IndexByte("0123456789+-.eE", ch) >= 0 {
				continue
			}
			inNum = false
			last = 'v'
		}
		if inLit {
			if ch >= 'a' && ch <= 'z' {
				continue
			}
			inLit = false
			last = 'v'
		}
		switch ch {
		case '"':
			inStr = true
			isKey = len(stack) > 0 && stack[len(stack)-1] == '{' && (last == '{' || last == ',')
		case '{', '[':
			depth++
			stack = append(stack, ch)
			last = ch
		case '}', ']':
			depth--
			if len(stack) > 0 {
				stack = stack[:len(stack)-1]
			}
			last = 'v'
		case ',', ':':
			last = ch
		case ' ', '\t', '\n', '\r':
		default:
			if ch == '-' || (ch >= '0' && ch <= '9') {
				inNum = true
			} else {
				inLit = true
			}
		}
	}
	return cls
}

// GenOpts steers the generator.
type GenOpts struct {
	MaxN       int
	ForceEnd   string // "" = random
	ForceCutAt int    // with ForceEnd == "cut": the offset inside CutReq; 0 = random by class
	CutReq     []byte // the request that is cut (nil = a random pool item)
	HeavyTail  int    // the last k complete requests are document operations
	AllAtOnce  bool
}

var syntaxTails = []string{"not json", `}`, `{"action":"ping",}`, `{"action" "ping"}`, "\x00", "{\"action\":\"ping\",\"req_id\":\"ha\nlf\"}", `nul`, `{'action':'ping'}`, `{"action":"ping","req_id":"x"]`, `{"action":tru}`, `{"action":"ping","indent":01}`}
var typeTails = []string{`{"req_id":"tid","action":5}`, `[1,2]`, `{"action":"ping","req_id":7}`, `{"req_id":"tid2","indent":"yes","action":"ping"}`, `"just a string"`, `42 `, `{"payload":{"a":1},"req_id":{"x":1},"action":"ping"}`, `{"action":"ping","indent":1,"req_id":"after-the-bad-member"}`, `true `, `{"action":["ping"],"req_id":"tid3"}`}

// GenStream makes one stream from the pool.
func GenStream(rng *rand.Rand, pool []Item, o GenOpts) (*Stream, error) {
	st := &Stream{}
	n := 0
	if o.MaxN > 0 {
		n = rng.Intn(o.MaxN + 1)
	}
	if o.HeavyTail > n {
		n = o.HeavyTail
	}
	var heavy []int
	for i, it := range pool {
		if it.Heavy {
			heavy = append(heavy, i)
		}
	}
	var sb bytes.Buffer
	seps := []string{"\n", "", " ", "\n\n", "\t\n", "\r\n"}
	dupIDs := rng.Intn(8) == 0
	var wants []string
	var starts []int
	for i := 0; i < n; i++ {
		var it Item
		switch {
		case i >= n-o.HeavyTail && len(heavy) > 0:
			it = pool[heavy[rng.Intn(len(heavy))]]
		case rng.Intn(5) == 0:
			it = Item{Action: "sleep", Payload: json.RawMessage(fmt.Sprintf(`"%dms"`, rng.Intn(30))), Want: `P:{"sleep":"done"}`}
		default:
			it = pool[rng.Intn(len(pool))]
		}
		id := fmt.Sprintf("r%d-%x", i, rng.Intn(1<<16))
		switch {
		case dupIDs:
			id = fmt.Sprintf("same%d", rng.Intn(2))
		case rng.Intn(12) == 0:
			id = ""
		case rng.Intn(12) == 0:
			id = "π \"quoted\" \\ " + fmt.Sprint(i)
		}
		starts = append(starts, sb.Len())
		sb.Write(encodeReq(rng, it, id, id != "" || rng.Intn(2) == 0))
		sb.WriteString(seps[rng.Intn(len(seps))])
		wants = append(wants, it.Want)
	}
	tailStart := sb.Len()
	kind := o.ForceEnd
	if kind == "" {
		kind = []string{"eof", "eof", "syntax", "type", "cut", "cut", "cut", "readerr", "readerr-cut"}[rng.Intn(9)]
	}
	after := "\n" + `{"action":"ping","req_id":"after"}` + "\n"
	cut := func() error {
		req := o.CutReq
		if req == nil {
			it := pool[rng.Intn(len(pool))]
			if rng.Intn(3) == 0 {
				it = Item{Action: "sleep", Payload: json.RawMessage(`"1ms"`)}
			}
			req = encodeReq(rng, it, "cut-"+fmt.Sprint(rng.Intn(1000)), true)
		}
		if len(req) < 3 {
			return fmt.Errorf("request too short to cut")
		}
		cls := CutClasses(req)
		at := o.ForceCutAt
		if at <= 0 || at >= len(req) {
			// a class first, then an offset of that class
			by := map[string][]int{}
			for i := 1; i < len(req); i++ {
				by[cls[i]] = append(by[cls[i]], i)
			}
			var names []string
			for k := range by {
				names = append(names, k)
			}
			sort.Strings(names)
			offs := by[names[rng.Intn(len(names))]]
			at = offs[rng.Intn(len(offs))]
		}
		st.End.CutClass = cls[at]
		st.End.CutAt = at
		sb.Write(req[:at])
		return nil
	}
	switch kind {
	case "eof":
		sb.WriteString([]string{"", "\n", "  \n\t", "\r\n\r\n"}[rng.Intn(4)])
	case "syntax":
		sb.WriteString(syntaxTails[rng.Intn(len(syntaxTails))] + after)
		st.After = []string{"after"}
	case "type":
		sb.WriteString(typeTails[rng.Intn(len(typeTails))] + after)
		st.After = []string{"after"}
	case "cut":
		if err := cut(); err != nil {
			return nil, err
		}
	case "readerr":
		st.End.ReadErr = "harness: connection reset in the middle of the stream"
	case "readerr-cut":
		kind = "readerr"
		st.End.ReadErr = "harness: read failed inside a request"
		if err := cut(); err != nil {
			return nil, err
		}
	default:
		return nil, fmt.Errorf("unknown ending %q", kind)
	}
	st.End.Kind = kind
	st.Body = append([]byte{}, sb.Bytes()...)

	// delivery
	arr := rng.Intn(20)
	if o.AllAtOnce {
		arr = 0
	}
	switch {
	case arr < 8 || len(st.Body) < 4:
		st.Arrangement = "all-at-once"
	case arr < 14:
		st.Arrangement = "random-pauses"
		k := 1 + rng.Intn(5)
		set := map[int]bool{}
		for i := 0; i < k; i++ {
			set[1+rng.Intn(len(st.Body)-1)] = true
		}
		for b := range set {
			st.Bounds = append(st.Bounds, b)
		}
		sort.Ints(st.Bounds)
		for range st.Bounds {
			st.Pauses = append(st.Pauses, rng.Intn(3000))
		}
	case arr < 17 && tailStart > 0 && tailStart < len(st.Body):
		st.Arrangement = "everything-answered-before-the-tail"
		st.Bounds = []int{tailStart}
		st.Pauses = []int{-n}
	default:
		st.Arrangement = "tail-byte-by-byte"
		lo := len(st.Body) - 24
		if lo < 1 {
			lo = 1
		}
		for b := lo; b < len(st.Body); b++ {
			st.Bounds = append(st.Bounds, b)
			st.Pauses = append(st.Pauses, 0)
		}
	}
	st.Pipe = rng.Intn(3) == 0
	st.ConsumerDelay = []int{0, 0, -1, 50, 300}[rng.Intn(5)]
	_ = starts
	if err := st.Prepare(wants); err != nil {
		return nil, err
	}
	return st, nil
}

/* ---------- run ---------- */

// Resp is one observed response.
type Resp struct {
	ReqID   string          `json:"req_id"`
	SeqID   int64           `json:"seq_id"`
	Payload json.RawMessage `json:"payload,omitempty"`
	Err     json.RawMessage `json:"error,omitempty"`
	ErrCode int             `json:"-"`
	ErrMsg  string          `json:"-"`
	IsFinal bool            `json:"is_final"`
}

// Obs is what one run of a stream gave.
type Obs struct {
	Resps []Resp
	Hang  bool
	Panic string
}

// ctlReader delivers the body up to the next bound without delay and pauses
// at the bounds; at the end it returns the stream's final error.
type ctlReader struct {
	st    *Stream
	pos   int
	bi    int
	recvd *int64
	reads *int64
}

func (r *ctlReader) pause(k int) {
	p := r.st.Pauses[k]
	switch {
	case p > 0:
		time.Sleep(time.Duration(p) * time.Microsecond)
	case p == 0:
		runtime.Gosched()
	default:
		dl := time.Now().Add(30 * time.Second)
		for atomic.LoadInt64(r.recvd) < int64(-p) && time.Now().Before(dl) {
			time.Sleep(200 * time.Microsecond)
		}
	}
}

func (r *ctlReader) Read(p []byte) (int, error) {
	atomic.AddInt64(r.reads, 1)
	for r.bi < len(r.st.Bounds) && r.st.Bounds[r.bi] <= r.pos {
		if r.st.Bounds[r.bi] == r.pos {
			r.pause(r.bi)
		}
		r.bi++
	}
	if r.pos >= len(r.st.Body) {
		return 0, r.st.endErr()
	}
	hi := len(r.st.Body)
	if r.bi < len(r.st.Bounds) && r.st.Bounds[r.bi] < hi {
		hi = r.st.Bounds[r.bi]
	}
	n := copy(p, r.st.Body[r.pos:hi])
	r.pos += n
	return n, nil
}

// Run sends the stream through the dispatcher in this process.
func (st *Stream) Run() Obs {
	var recvd, reads int64
	var in io.Reader = &ctlReader{st: st, recvd: &recvd, reads: &reads}
	if st.Pipe {
		pr, pw := io.Pipe()
		src := in
		go func() {
			buf := make([]byte, 4096)
			for {
				n, err := src.Read(buf)
				if n > 0 {
					if _, werr := pw.Write(buf[:n]); werr != nil {
						return
					}
				}
				if err != nil {
					_ = pw.CloseWithError(err)
					return
				}
			}
		}()
		in = pr
	}
	ctx, cancel := context.WithCancel(context.Background())
	defer cancel()
	var obs Obs
	done := make(chan struct{})
	var mu sync.Mutex
	go func() {
		defer close(done)
		defer func() {
			if r := recover(); r != nil {
				mu.Lock()
				obs.Panic = fmt.Sprint(r)
				mu.Unlock()
			}
		}()
		for res := range verifhook.Bulk(ctx, &verifhook.BulkOptions{In: in, DefaultPrivateKey: Key}) {
			r := Resp{ReqID: res.ReqID, SeqID: res.SeqID, Payload: res.Payload, IsFinal: res.IsFinal}
			if res.Error != nil {
				r.Err, _ = json.Marshal(res.Error)
				r.ErrCode, r.ErrMsg = res.Error.Code, res.Error.Message
			}
			mu.Lock()
			obs.Resps = append(obs.Resps, r)
			mu.Unlock()
			k := atomic.AddInt64(&recvd, 1)
			if st.CancelAfter > 0 && k == int64(st.CancelAfter) {
				cancel()
			}
			switch {
			case st.ConsumerDelay > 0:
				time.Sleep(time.Duration(st.ConsumerDelay) * time.Microsecond)
			case st.ConsumerDelay < 0:
				runtime.Gosched()
			}
		}
	}()
	select {
	case <-done:
	case <-time.After(90 * time.Second):
		mu.Lock()
		o := Obs{Resps: append([]Resp{}, obs.Resps...), Hang: true}
		mu.Unlock()
		return o
	}
	return obs
}

func soloAnswer(it Item) string {
	m := map[string]any{"action": it.Action, "req_id": "solo"}
	if it.Payload != nil {
		m["payload"] = it.Payload
	}
	b, _ := json.Marshal(m)
	st := &Stream{Body: b, End: Ending{Kind: "eof"}}
	obs := st.Run()
	if obs.Hang || obs.Panic != "" || len(obs.Resps) != 2 {
		return fmt.Sprintf("?solo-run-gave-%d-responses hang=%v panic=%s", len(obs.Resps), obs.Hang, obs.Panic)
	}
	return canonResp(obs.Resps[0], it.Action)
}

func canonResp(r Resp, action string) string {
	if len(r.Err) > 0 {
		return CanonErr(r.Err)
	}
	return CanonOK(action, r.Payload)
}

// FillFixed runs every pool item alone (sequentially, nothing else in
// flight): items without a standalone operation get their answer from it,
// for the others the dispatcher's answer must be the standalone result.
func FillFixed(pool []Item) (problems []Problem) {
	for i := range pool {
		got := soloAnswer(pool[i])
		if pool[i].Want == "" {
			pool[i].Want = got
			continue
		}
		if got != pool[i].Want {
			m := map[string]any{"action": pool[i].Action, "req_id": "solo"}
			if pool[i].Payload != nil {
				m["payload"] = pool[i].Payload
			}
			b, _ := json.Marshal(m)
			problems = append(problems, Problem{
				What:   fmt.Sprintf("bulk %s reply of a single-request stream differs from the standalone operation (%s): %s", pool[i].Action, pool[i].Name, FirstDiff(pool[i].Want, got)),
				Stream: &Stream{Body: b, End: Ending{Kind: "eof"}},
			})
			pool[i].Want = got // reported once
		}
	}
	return
}

/* ---------- judge ---------- */

// Problem is one violation with what is needed to replay it.
type Problem struct {
	What   string  `json:"what"`
	Stream *Stream `json:"stream,omitempty"`
	Cancel any     `json:"cancel,omitempty"`
	Procs  int     `json:"procs,omitempty"`
}

// Verdict of the Go-side judge and the request for the Lean acceptor.
type Verdict struct {
	Problems  []string
	ModelReq  string
	Reordered bool
	Lenient   int // replies accepted as `context canceled` (caller-cancelled streams only)
}

func h16(s string) string {
	h := sha256.Sum256([]byte(s))
	return hex.EncodeToString(h[:8])
}

func isCtxCancelErr(canon string) bool {
	return strings.HasPrefix(canon, "E:") && strings.Contains(canon, "context canceled")
}

// Judge checks one observation: pairing (also done by the Lean acceptor on
// ModelReq), every complete request's payload = standalone result, and the
// pinned shape of the final marker.
func Judge(st *Stream, obs Obs) Verdict {
	var v Verdict
	bad := func(f string, a ...any) { v.Problems = append(v.Problems, fmt.Sprintf(f, a...)) }
	if obs.Hang {
		bad("the response stream did not end within 90 s (%d responses received)", len(obs.Resps))
	}
	if obs.Panic != "" {
		bad("panic while consuming the stream: %s", obs.Panic)
	}
	n := len(st.Reqs)
	seen := make([]int, n+2)
	finals := 0
	canon := make([]string, len(obs.Resps))
	for k, r := range obs.Resps {
		if k+1 < len(obs.Resps) && r.SeqID > obs.Resps[k+1].SeqID {
			v.Reordered = true
		}
		if r.IsFinal {
			finals++
			if k != len(obs.Resps)-1 {
				bad("final marker at position %d of %d: not last", k+1, len(obs.Resps))
			}
			if int(r.SeqID) != n+1 {
				bad("final marker has seq_id %d, %d complete requests were sent", r.SeqID, n)
			}
			if r.ReqID != st.TailID {
				bad("final marker has req_id %q, the failed decode leaves %q", r.ReqID, st.TailID)
			}
			if len(r.Payload) > 0 {
				bad("final marker carries a payload")
			}
			switch {
			case st.TailErr && len(r.Err) == 0:
				bad("the input did not end cleanly (%s) but the final marker has no error", st.End.Kind)
			case !st.TailErr && len(r.Err) > 0:
				bad("the input ended cleanly but the final marker has error %s", r.Err)
			case st.TailErr && (r.ErrCode != 422 || r.ErrMsg != st.TailMsg):
				bad("final marker error is {code %d, message %q}; the unreadable request is reported as {code 422, message %q}", r.ErrCode, r.ErrMsg, st.TailMsg)
			}
			continue
		}
		if r.SeqID < 1 || int(r.SeqID) > n {
			bad("response with seq_id %d (req_id %q): no complete request has that position (n = %d)", r.SeqID, r.ReqID, n)
			continue
		}
		i := int(r.SeqID) - 1
		seen[i+1]++
		if r.ReqID != st.Reqs[i].ReqID {
			bad("response seq_id %d has req_id %q, the request's own is %q", r.SeqID, r.ReqID, st.Reqs[i].ReqID)
		}
		got := canonResp(r, st.Reqs[i].Action)
		canon[k] = got
		if got != st.Reqs[i].Want {
			if st.CancelAfter > 0 && isCtxCancelErr(got) {
				v.Lenient++
				canon[k] = st.Reqs[i].Want
			} else {
				bad("payload of complete request %d (%s, req_id %q) differs from the standalone operation: %s", r.SeqID, st.Reqs[i].Action, r.ReqID, FirstDiff(st.Reqs[i].Want, got))
			}
		}
	}
	if finals != 1 {
		bad("%d final markers", finals)
	}
	for i := 1; i <= n; i++ {
		if seen[i] != 1 {
			bad("complete request %d (%s) answered %d times", i, st.Reqs[i-1].Action, seen[i])
		}
	}
	// the acceptor's input: the RAW stream (every value in order, also what follows the first
	// unreadable one, and how the bytes end); the model's own `parse` finds n and the tail
	var sb strings.Builder
	ending := map[string]string{"eof": "eof", "cut": "cut", "readerr": "readerr", "broken": "eof"}[st.TailKind]
	if st.TailKind == "broken" && st.End.ReadErr != "" {
		ending = "readerr"
	}
	k := n
	if st.TailKind == "broken" {
		k += 1 + len(st.After)
	}
	fmt.Fprintf(&sb, "itrace 1 %s %d", ending, k)
	for _, r := range st.Reqs {
		fmt.Fprintf(&sb, " o %s %s", core.Hex(r.ReqID), core.Hex(h16(r.Want)))
	}
	if st.TailKind == "broken" {
		fmt.Fprintf(&sb, " b %s -", core.Hex(st.TailID))
		for _, id := range st.After {
			fmt.Fprintf(&sb, " o %s %s", core.Hex(id), core.Hex(h16("never read")))
		}
	}
	fmt.Fprintf(&sb, " %d", len(obs.Resps))
	for k, r := range obs.Resps {
		pl := "~"
		fin, er := 0, 0
		if r.IsFinal {
			fin = 1
			if len(r.Err) > 0 {
				er = 1
			}
			if len(r.Payload) > 0 {
				pl = core.Hex("final-with-payload")
			}
		} else {
			c := canon[k]
			if c == "" {
				c = canonResp(r, "")
			}
			pl = core.Hex(h16(c))
		}
		fmt.Fprintf(&sb, " %s %d %s %d %d", core.Hex(r.ReqID), r.SeqID, pl, fin, er)
	}
	v.ModelReq = sb.String()
	return v
}

// FirstDiff shows where two canonical results part.
func FirstDiff(a, b string) string {
	n := len(a)
	if len(b) < n {
		n = len(b)
	}
	i := 0
	for i < n && a[i] == b[i] {
		i++
	}
	lo := i - 60
	if lo < 0 {
		lo = 0
	}
	cut := func(s string) string {
		hi := i + 100
		if hi > len(s) {
			hi = len(s)
		}
		if lo > len(s) {
			return ""
		}
		return s[lo:hi]
	}
	return fmt.Sprintf("at byte %d: sequential %q / concurrent %q", i, cut(a), cut(b))
}

/* ---------- a batch of streams ---------- */

// Judged is one stream with its observation and verdict.
type Judged struct {
	St    *Stream
	Obs   Obs
	V     Verdict
	Procs int
}

// BulkBatch is what one call of BulkPhase did.
type BulkBatch struct {
	Judged   []Judged
	Counters map[string]int64
	GenErrs  []string
}

// BulkCfg sizes the phase.
type BulkCfg struct {
	Streams   int   // random streams per GOMAXPROCS value
	MaxN      int   // complete requests per stream at most
	Sweeps    int   // requests cut at EVERY byte offset (one stream per offset)
	SweepMax  int   // at most that many offsets per swept request (stride above)
	HeavyTail int   // complete document operations right before the broken tail in the targeted streams
	Procs     []int // GOMAXPROCS values
	Par       int   // streams in flight at the same time
}

// BulkPhase generates and runs the streams: random ones, the targeted family
// "document operations still in flight when the input breaks off" for every
// kind of ending, and the cut-at-every-offset sweeps.  GOMAXPROCS is changed
// for the duration (process-wide) and restored.
func BulkPhase(rng *rand.Rand, pool []Item, cfg BulkCfg) BulkBatch {
	out := BulkBatch{Counters: map[string]int64{}}
	old := runtime.GOMAXPROCS(0)
	defer runtime.GOMAXPROCS(old)
	if cfg.Par < 1 {
		cfg.Par = 3
	}
	for _, procs := range cfg.Procs {
		if procs <= 0 {
			procs = old
		}
		runtime.GOMAXPROCS(procs)
		var sts []*Stream
		gen := func(o GenOpts) *Stream {
			st, err := GenStream(rng, pool, o)
			if err != nil {
				out.GenErrs = append(out.GenErrs, err.Error())
				return nil
			}
			sts = append(sts, st)
			return st
		}
		for i := 0; i < cfg.Streams; i++ {
			o := GenOpts{MaxN: cfg.MaxN}
			if rng.Intn(3) == 0 {
				o.HeavyTail = 1 + rng.Intn(cfg.HeavyTail)
			}
			st := gen(o)
			// the caller cancels its own context in a few streams: their replies may be
			// `context canceled`; the streams running next to them are judged strictly
			if st != nil && i%9 == 4 && len(st.Reqs) > 2 {
				st.CancelAfter = 1 + rng.Intn(len(st.Reqs)/2+1)
			}
		}
		// document operations in flight at every kind of ending, everything available at once
		for _, end := range []string{"eof", "syntax", "type", "cut", "cut", "readerr", "readerr-cut"} {
			gen(GenOpts{MaxN: cfg.HeavyTail + 2, HeavyTail: cfg.HeavyTail, ForceEnd: end, AllAtOnce: true})
		}
		// one request cut at every byte offset behind a few document operations
		for s := 0; s < cfg.Sweeps; s++ {
			var it Item
			switch s % 3 {
			case 0:
				it = Item{Action: "ping", Payload: json.RawMessage(`{"n":[10,2.5e-3,true,null],"s":"é\"\\"}`)}
			case 1:
				it = Item{Action: "sleep", Payload: json.RawMessage(`"2ms"`)}
			default:
				it = pool[rng.Intn(len(pool))]
			}
			req := encodeReq(rng, it, "swept", true)
			stride := 1
			if cfg.SweepMax > 0 && len(req) > cfg.SweepMax {
				stride = len(req)/cfg.SweepMax + 1
			}
			for at := 1 + rng.Intn(stride); at < len(req); at += stride {
				end := "cut"
				if at%5 == 0 {
					end = "readerr-cut"
				}
				gen(GenOpts{MaxN: 3, HeavyTail: 2, ForceEnd: end, CutReq: req, ForceCutAt: at, AllAtOnce: at%2 == 0})
			}
			out.Counters["hook.bulk.sweep.request-cut-at-every-offset(stride "+fmt.Sprint(stride)+")"]++
		}
		res := make([]Judged, len(sts))
		var wg sync.WaitGroup
		sem := make(chan struct{}, cfg.Par)
		for i := range sts {
			wg.Add(1)
			sem <- struct{}{}
			go func(i int) {
				defer wg.Done()
				defer func() { <-sem }()
				obs := sts[i].Run()
				res[i] = Judged{St: sts[i], Obs: obs, V: Judge(sts[i], obs), Procs: procs}
			}(i)
		}
		wg.Wait()
		for _, j := range res {
			c := out.Counters
			c[fmt.Sprintf("hook.bulk.stream.gomaxprocs=%d", procs)]++
			c["hook.bulk.requests.complete"] += int64(len(j.St.Reqs))
			c["hook.bulk.ending."+j.St.End.Kind]++
			if j.St.End.CutClass != "" {
				c["hook.bulk.cut."+j.St.End.CutClass]++
			}
			c["hook.bulk.delivery."+j.St.Arrangement]++
			if j.St.Pipe {
				c["hook.bulk.delivery.via-io.Pipe"]++
			}
			if j.V.Reordered {
				c["hook.bulk.answered-out-of-order"]++
			}
			if j.St.CancelAfter > 0 {
				c["hook.bulk.caller-cancelled-stream"]++
				c["hook.bulk.caller-cancelled-stream.replies-context-canceled"] += int64(j.V.Lenient)
			}
			if j.St.TailErr && len(j.St.Reqs) > 0 {
				c["hook.bulk.complete-requests-before-an-unreadable-one"] += int64(len(j.St.Reqs))
			}
		}
		out.Judged = append(out.Judged, res...)
	}
	return out
}

// ReplayStream runs one prepared stream several times (a few at the same
// time) under the given GOMAXPROCS.
func ReplayStream(st *Stream, procs, times int) []Judged {
	old := runtime.GOMAXPROCS(0)
	defer runtime.GOMAXPROCS(old)
	runtime.GOMAXPROCS(procs)
	out := make([]Judged, times)
	var wg sync.WaitGroup
	sem := make(chan struct{}, 3)
	for i := 0; i < times; i++ {
		wg.Add(1)
		sem <- struct{}{}
		go func(i int) {
			defer wg.Done()
			defer func() { <-sem }()
			obs := st.Run()
			out[i] = Judged{St: st, Obs: obs, V: Judge(st, obs), Procs: procs}
		}(i)
	}
	wg.Wait()
	return out
}
