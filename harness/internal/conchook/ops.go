// Package conchook is the part of the C15 workload that needs the hook
// package github.com/invopop/gobl/verifhook (build tag "verif"): the command
// line operations (Build, Validate, Verify, Sign, Correct, Replicate) and the
// bulk dispatcher called IN-PROCESS, with readers and contexts the harness
// controls.  It is shared by the drive harness (props/c15) and by the
// race-detector binary (cmd/racework).
//
//	ops.go     one document operation, its canonical result, the pool of
//	           bulk requests with the standalone result of each
//	bulk.go    bulk request streams (how they end, where they are cut, how
//	           they are delivered), the run through verifhook.Bulk, the judge
//	cancel.go  the cancellation workload: operations cancelled while their
//	           input read is pending next to independent operations
package conchook

import (
	"bytes"
	"context"
	"encoding/json"
	"fmt"
	"io"
	"math/rand"
	"runtime/debug"
	"sort"
	"strings"

	"github.com/invopop/gobl/dsig"
	"github.com/invopop/gobl/verifhook"

	"verifharness/internal/conc"
	"verifharness/internal/core"
)

// DocOp is one command line operation on one document.
type DocOp struct {
	Kind    string          `json:"kind"` // build | validate | verify | sign | correct | replicate
	Name    string          `json:"name,omitempty"`
	Data    []byte          `json:"data"`
	Envelop bool            `json:"envelop,omitempty"`
	Options []byte          `json:"options,omitempty"`
	Schema  bool            `json:"schema,omitempty"`
	Pub     *dsig.PublicKey `json:"pub,omitempty"`
}

// Key is the signing key of the workload (the bulk stream's default key).
var Key = dsig.NewES256Key()

func canonJSON(b []byte) string {
	var v any
	dec := json.NewDecoder(bytes.NewReader(b))
	dec.UseNumber()
	if err := dec.Decode(&v); err != nil {
		return "!" + string(b)
	}
	o, _ := json.Marshal(v)
	return string(o)
}

// CanonOK is the canonical form of the payload of a successful operation.
func CanonOK(action string, payload []byte) string {
	s := canonJSON(payload)
	switch action {
	case "keygen":
		var kp struct {
			Private *dsig.PrivateKey `json:"private"`
			Public  *dsig.PublicKey  `json:"public"`
		}
		if json.Unmarshal(payload, &kp) == nil && kp.Private != nil && kp.Public != nil && kp.Private.Validate() == nil &&
			kp.Public.Validate() == nil && kp.Private.Public().Thumbprint() == kp.Public.Thumbprint() {
			return "P:KEYPAIR-OK"
		}
		return "P:keygen?" + s
	case "sign":
		// the signature is randomised: check it instead of comparing it
		var e struct {
			Sigs []*dsig.Signature `json:"sigs"`
		}
		ok := "unsigned"
		if json.Unmarshal(payload, &e) == nil && len(e.Sigs) == 1 && e.Sigs[0] != nil {
			if _, err := e.Sigs[0].Verify(Key.Public()); err == nil {
				ok = "sig-verifies"
			} else {
				ok = "sig-bad"
			}
		}
		return "P:" + ok + ":" + conc.Canon(s)
	}
	return "P:" + conc.Canon(s)
}

// CanonErr is the canonical form of a structured error.
func CanonErr(e []byte) string { return "E:" + conc.Canon(canonJSON(e)) }

func canonResult(action string, out any, err error) string {
	if err != nil {
		b, e := json.Marshal(err)
		if e != nil {
			return "E:!" + err.Error()
		}
		return CanonErr(b)
	}
	b, e := json.Marshal(out)
	if e != nil {
		return "M:" + e.Error()
	}
	return CanonOK(action, b)
}

// Run performs the operation with the given context, reading the document
// from in, and returns the canonical result ("P:…" payload, "E:…" structured
// error, "PANIC …").  What it returns for an undisturbed reader and
// context.Background() is the sequential (standalone) result.
func (o DocOp) Run(ctx context.Context, in io.Reader) (res string) {
	defer func() {
		if r := recover(); r != nil {
			res = "PANIC at " + core.PanicSite(debug.Stack())
		}
	}()
	po := &verifhook.ParseOptions{Input: in}
	switch o.Kind {
	case "build":
		po.Envelop = o.Envelop
		out, err := verifhook.Build(ctx, &verifhook.BuildOptions{ParseOptions: po})
		return canonResult("build", out, err)
	case "validate":
		err := verifhook.Validate(ctx, in)
		return canonResult("validate", map[string]bool{"ok": true}, err)
	case "verify":
		err := verifhook.Verify(ctx, in, o.Pub)
		return canonResult("verify", map[string]bool{"ok": true}, err)
	case "sign":
		out, err := verifhook.Sign(ctx, &verifhook.SignOptions{ParseOptions: po, PrivateKey: Key})
		if err != nil {
			return canonResult("sign", nil, err)
		}
		return canonResult("sign", out, nil)
	case "correct":
		out, err := verifhook.Correct(ctx, &verifhook.CorrectOptions{ParseOptions: po, OptionsSchema: o.Schema, Data: o.Options})
		return canonResult("correct", out, err)
	case "replicate":
		out, err := verifhook.Replicate(ctx, &verifhook.ReplicateOptions{ParseOptions: po})
		return canonResult("replicate", out, err)
	}
	return "?unknown operation " + o.Kind
}

// Standalone is the sequential result: own reader, background context.
func (o DocOp) Standalone() string { return o.Run(context.Background(), bytes.NewReader(o.Data)) }

// Item is one bulk request body (without req_id) and the canonical result of
// the standalone operation.
type Item struct {
	Action  string          `json:"action"`
	Payload json.RawMessage `json:"payload,omitempty"` // nil = absent
	Want    string          `json:"want,omitempty"`    // "" = fixed by the dispatcher itself: filled by an isolated single-request run
	Heavy   bool            `json:"-"`                 // a document operation (slow enough to be in flight when the stream ends)
	Name    string          `json:"-"`
}

// Bulk is the bulk request for the operation.
func (o DocOp) Bulk() Item {
	m := map[string]any{"data": o.Data}
	switch o.Kind {
	case "build":
		m["envelop"] = o.Envelop
	case "verify":
		m["publickey"] = o.Pub
	case "correct":
		if o.Schema {
			m["schema"] = true
		} else {
			m["options"] = o.Options
		}
	}
	b, _ := json.Marshal(m)
	return Item{Action: o.Kind, Payload: b, Heavy: true, Name: o.Name}
}

// payloadMirror reads the payload members the document actions take.
type payloadMirror struct {
	Template   []byte           `json:"template"`
	Data       []byte           `json:"data"`
	DocType    string           `json:"type"`
	Envelop    bool             `json:"envelop"`
	Options    []byte           `json:"options"`
	Schema     bool             `json:"schema"`
	PublicKey  *dsig.PublicKey  `json:"publickey"`
	PrivateKey *dsig.PrivateKey `json:"privatekey"`
}

// FromBulk recovers the document operation of a bulk request (used when a
// stream is replayed from a file: the standalone result is computed afresh).
func FromBulk(action string, payload json.RawMessage) (DocOp, bool) {
	switch action {
	case "build", "validate", "verify", "sign", "correct", "replicate":
	default:
		return DocOp{}, false
	}
	var m payloadMirror
	if len(payload) == 0 || json.Unmarshal(payload, &m) != nil || len(m.Template) > 0 || m.DocType != "" || m.PrivateKey != nil {
		return DocOp{}, false
	}
	return DocOp{Kind: action, Data: m.Data, Envelop: m.Envelop && action == "build", Options: m.Options, Schema: m.Schema, Pub: m.PublicKey}, true
}

// Bloat repeats the lines of an invoice until there are n of them: a large
// document whose operation takes long enough to be still in flight when the
// reader reaches the end of the stream.
func Bloat(d conc.Doc, n int) (conc.Doc, bool) {
	var top map[string]any
	if json.Unmarshal(d.Data, &top) != nil {
		return d, false
	}
	doc := top
	if dm, ok := top["doc"].(map[string]any); ok {
		doc = dm
	}
	lines, ok := doc["lines"].([]any)
	if !ok || len(lines) == 0 {
		return d, false
	}
	var out []any
	for i := 0; len(out) < n; i++ {
		l, ok := lines[i%len(lines)].(map[string]any)
		if !ok {
			return d, false
		}
		c := map[string]any{}
		for k, v := range l {
			if k != "i" && k != "uuid" {
				c[k] = v
			}
		}
		out = append(out, c)
	}
	doc["lines"] = out
	// stored totals and payment figures of a calculated document no longer fit
	delete(doc, "totals")
	b, err := json.Marshal(top)
	if err != nil {
		return d, false
	}
	return conc.Doc{Name: fmt.Sprintf("%s~x%d-lines", d.Name, n), Data: b}, true
}

// Ops is the corpus of document operations over the examples: builds of the
// inputs (also enveloped, also bloated), validations / replications /
// corrections of the outputs, signing, verification of envelopes signed here
// with the right and with another key.  Deterministic for a given rng.
func Ops(rng *rand.Rand, inputs, outputs []conc.Doc, per int) []DocOp {
	pick := func(ds []conc.Doc, n int) []conc.Doc {
		idx := rng.Perm(len(ds))
		if n > len(ds) {
			n = len(ds)
		}
		out := make([]conc.Doc, n)
		for i := 0; i < n; i++ {
			out[i] = ds[idx[i]]
		}
		return out
	}
	var ops []DocOp
	for _, d := range pick(inputs, per) {
		ops = append(ops, DocOp{Kind: "build", Name: d.Name, Data: d.Data, Envelop: rng.Intn(2) == 0})
	}
	// large documents
	nb := 0
	for _, d := range pick(inputs, len(inputs)) {
		if nb >= per/2+1 {
			break
		}
		if !conc.IsInvoice(d.Data) {
			continue
		}
		if b, ok := Bloat(d, 40+rng.Intn(160)); ok {
			ops = append(ops, DocOp{Kind: "build", Name: b.Name, Data: b.Data, Envelop: true})
			nb++
		}
	}
	for _, d := range pick(outputs, per) {
		ops = append(ops, DocOp{Kind: "validate", Name: d.Name, Data: d.Data})
		ops = append(ops, DocOp{Kind: "replicate", Name: d.Name, Data: d.Data})
	}
	for _, d := range pick(inputs, per/2+1) {
		ops = append(ops, DocOp{Kind: "sign", Name: d.Name, Data: d.Data})
	}
	other := dsig.NewES256Key().Public()
	for _, d := range pick(inputs, per/2+1) {
		signed := DocOp{Kind: "sign", Data: d.Data}
		var env json.RawMessage
		func() {
			defer func() { _ = recover() }()
			out, err := verifhook.Sign(context.Background(), &verifhook.SignOptions{ParseOptions: &verifhook.ParseOptions{Input: bytes.NewReader(signed.Data)}, PrivateKey: Key})
			if err == nil {
				env, _ = json.Marshal(out)
			}
		}()
		if env == nil {
			continue
		}
		ops = append(ops, DocOp{Kind: "verify", Name: d.Name + "~signed", Data: env, Pub: Key.Public()})
		if rng.Intn(2) == 0 {
			ops = append(ops, DocOp{Kind: "verify", Name: d.Name + "~signed-other-key", Data: env, Pub: other})
		}
	}
	for _, d := range pick(outputs, 2) {
		ops = append(ops, DocOp{Kind: "verify", Name: d.Name + "~unsigned", Data: d.Data, Pub: Key.Public()})
	}
	var invs []conc.Doc
	for _, d := range outputs {
		if conc.IsInvoice(d.Data) {
			invs = append(invs, d)
		}
	}
	optsets := []string{`{"type":"credit-note"}`, `{"type":"credit-note","reason":"r","ext":{"es-facturae-correction":"01"}}`, `{"type":"corrective","reason":"x"}`, `{"type":"debit-note"}`, `{"type":"nonsense"}`, `{}`}
	for _, d := range pick(invs, per) {
		ops = append(ops, DocOp{Kind: "correct", Name: d.Name, Data: d.Data, Options: []byte(optsets[rng.Intn(len(optsets))])})
	}
	for _, d := range pick(invs, 2) {
		ops = append(ops, DocOp{Kind: "correct", Name: d.Name, Data: d.Data, Schema: true})
	}
	return ops
}

// Job is an operation with its sequential result.
type Job struct {
	Op   DocOp
	Want string
}

// Sequential computes the standalone result of every operation, one after
// the other, before anything concurrent starts.  Operations that panic
// standalone are left out (a C14 matter) and counted.
func Sequential(ops []DocOp) (jobs []Job, panics int) {
	for _, o := range ops {
		w := o.Standalone()
		if strings.HasPrefix(w, "PANIC") {
			panics++
			continue
		}
		jobs = append(jobs, Job{o, w})
	}
	return
}

// Pool turns the jobs into bulk request bodies and adds the requests the
// dispatcher answers by itself: fixed payloads, and error answers whose text
// is fixed by the dispatcher (no standalone command; Want is filled by an
// isolated single-request stream, see FillFixed).
func Pool(jobs []Job) []Item {
	var items []Item
	for _, j := range jobs {
		it := j.Op.Bulk()
		it.Want = j.Want
		items = append(items, it)
	}
	items = append(items,
		Item{Action: "ping", Want: `P:{"pong":true}`},
		Item{Action: "ping", Payload: json.RawMessage(`{"x":1}`), Want: `P:{"pong":true}`},
		Item{Action: "keygen", Want: "P:KEYPAIR-OK"},
	)
	for _, e := range []Item{
		{Action: "nonsense"}, {Action: ""}, {Action: "schema", Payload: json.RawMessage(`{"path":"no/such"}`)},
		{Action: "regime", Payload: json.RawMessage(`{"code":"zz"}`)}, {Action: "sleep", Payload: json.RawMessage(`"soon"`)},
		{Action: "sleep", Payload: json.RawMessage(`5`)}, {Action: "build", Payload: json.RawMessage(`5`)},
		{Action: "build", Payload: json.RawMessage(`{"data":"bm90IGpzb24="}`)}, {Action: "validate", Payload: json.RawMessage(`{"data":"e30="}`)},
		{Action: "verify", Payload: json.RawMessage(`{"data":"e30="}`)}, {Action: "correct", Payload: json.RawMessage(`{"data":"e30=","options":"e30="}`)},
		{Action: "replicate", Payload: json.RawMessage(`"x"`)}, {Action: "sign", Payload: json.RawMessage(`{"data":"e30="}`)},
		{Action: "schemas"}, {Action: "schema", Payload: json.RawMessage(`{"path":"bill/invoice"}`)}, {Action: "regime", Payload: json.RawMessage(`{"code":"ES"}`)},
	} {
		items = append(items, e)
	}
	return items
}

// Distribution counts the pool by action and kind of answer.
func Distribution(pool []Item) map[string]int64 {
	m := map[string]int64{}
	for _, it := range pool {
		k := "fixed-by-dispatcher"
		if it.Want != "" {
			k = it.Want[:1]
		}
		m["hook.pool."+it.Action+"."+k]++
	}
	return m
}

func sortedKeys(m map[string]int64) []string {
	var ks []string
	for k := range m {
		ks = append(ks, k)
	}
	sort.Strings(ks)
	return ks
}
