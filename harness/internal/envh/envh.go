// Package envh holds what the C09 and C10 harnesses share: base documents,
// the action alphabet (envelope API operations and raw manipulations), its
// execution on a real gobl.Envelope, the token encoding understood by the
// Lean drivers, and the canonical rendering of headers and verdicts.
package envh

import (
	"encoding/json"
	"errors"
	"fmt"
	"sort"
	"strings"
	"sync"

	"github.com/invopop/gobl"
	"github.com/invopop/gobl/bill"
	"github.com/invopop/gobl/cbc"
	"github.com/invopop/gobl/dsig"
	"github.com/invopop/gobl/head"
	"github.com/invopop/gobl/note"
	"github.com/invopop/gobl/schema"
	"github.com/invopop/gobl/uuid"
	"github.com/invopop/validation"

	"verifharness/internal/core"
)

// Base is one base document together with the facts the model is told about it.
type Base struct {
	Name      string
	Content   int // content id of the calculated document
	CalcOk    bool
	Valid     bool
	NeedsCode bool
	HasCode   bool
	Kind      string // invoice | message
	JSON      string
}

const invTmpl = `{"$schema":"https://gobl.org/draft-0/bill/invoice","uuid":"0190f5c1-0000-7000-8000-0000000000d%d","currency":"EUR","issue_date":"2022-02-01"%s,
"supplier":{"tax_id":{"country":"ES","code":"B98602642"}%s},
"customer":{"tax_id":{"country":"ES","code":"54387763P"},"name":"Sample Consumer"},
"lines":[{"quantity":"10","item":{"name":"Item","price":"100.00"},"taxes":[{"cat":"VAT","rate":"%s"}]}]}`

// Bases: valid invoice with code, valid invoice without code, invalid invoice
// (supplier without name), a non-invoice document, and an invoice that cannot
// be calculated (unknown tax rate).
var Bases = []Base{
	{Name: "invoice+code", Content: 1, CalcOk: true, Valid: true, NeedsCode: true, HasCode: true, Kind: "invoice",
		JSON: fmt.Sprintf(invTmpl, 1, `,"code":"S-001"`, `,"name":"Provide One S.L."`, "standard")},
	{Name: "invoice-nocode", Content: 2, CalcOk: true, Valid: true, NeedsCode: true, HasCode: false, Kind: "invoice",
		JSON: fmt.Sprintf(invTmpl, 2, ``, `,"name":"Provide One S.L."`, "standard")},
	{Name: "invoice-invalid", Content: 3, CalcOk: true, Valid: false, NeedsCode: true, HasCode: true, Kind: "invoice",
		JSON: fmt.Sprintf(invTmpl, 3, `,"code":"S-003"`, ``, "standard")},
	{Name: "message", Content: 4, CalcOk: true, Valid: true, NeedsCode: false, HasCode: false, Kind: "message",
		JSON: `{"$schema":"https://gobl.org/draft-0/note/message","uuid":"0190f5c1-0000-7000-8000-0000000000d4","title":"Hello","content":"A message, not an invoice."}`},
	{Name: "invoice-uncalculable", Content: 5, CalcOk: false, Valid: false, NeedsCode: true, HasCode: true, Kind: "invoice",
		JSON: fmt.Sprintf(invTmpl, 5, `,"code":"S-005"`, `,"name":"Provide One S.L."`, "nonexistent")},
}

// New builds a fresh instance of the base document.
func (b Base) New() any {
	var v any
	if b.Kind == "invoice" {
		v = new(bill.Invoice)
	} else {
		v = new(note.Message)
	}
	if err := json.Unmarshal([]byte(b.JSON), v); err != nil {
		panic("envh: base document does not parse: " + err.Error())
	}
	return v
}

func b01(b bool) string {
	if b {
		return "1"
	}
	return "0"
}

// Act is one step of a history: an envelope API operation or a raw
// manipulation.  It is what a replay file holds.
type Act struct {
	K    string `json:"k"`
	Base int    `json:"base,omitempty"` // ins
	N    int    `json:"n,omitempty"`    // content id / key / index / roundtrip mode
	Keys []int  `json:"keys,omitempty"` // verify
	A    string `json:"a,omitempty"`
	B    string `json:"b,omitempty"`
	Pool []int  `json:"pool,omitempty"` // tsigs: indices into the foreign-signature pool
}

func (a Act) String() string {
	b, _ := json.Marshal(a)
	return string(b)
}

// Hdr is a canonical snapshot of a head.Header.
type Hdr struct {
	UUID   string
	HasDig bool
	DigAlg string
	DigVal string
	Stamps [][2]string
	Links  [][2]string
	Tags   []string
	Meta   [][2]string // sorted by key
	Notes  string
}

// HdrOf snapshots a header.
func HdrOf(h *head.Header) Hdr {
	o := Hdr{UUID: string(h.UUID), Notes: h.Notes}
	if h.Digest != nil {
		o.HasDig, o.DigAlg, o.DigVal = true, string(h.Digest.Algorithm), h.Digest.Value
	}
	for _, s := range h.Stamps {
		o.Stamps = append(o.Stamps, [2]string{string(s.Provider), s.Value})
	}
	for _, l := range h.Links {
		o.Links = append(o.Links, [2]string{string(l.Key), l.URL})
	}
	o.Tags = append(o.Tags, h.Tags...)
	for k, v := range h.Meta {
		o.Meta = append(o.Meta, [2]string{string(k), v})
	}
	sort.Slice(o.Meta, func(i, j int) bool { return o.Meta[i][0] < o.Meta[j][0] })
	return o
}

// Tokens renders the header in the HEADER form of the protocol; dig maps a
// digest value to the text the model uses for it (nil: verbatim).
func (h Hdr) Tokens(dig func(string) string) string {
	var t []string
	t = append(t, core.Hex(h.UUID))
	if h.HasDig {
		v := h.DigVal
		if dig != nil {
			v = dig(v)
		}
		t = append(t, "1", core.Hex(h.DigAlg), core.Hex(v))
	} else {
		t = append(t, "0")
	}
	t = append(t, fmt.Sprint(len(h.Stamps)))
	for _, s := range h.Stamps {
		t = append(t, core.Hex(s[0]), core.Hex(s[1]))
	}
	t = append(t, fmt.Sprint(len(h.Links)))
	for _, s := range h.Links {
		t = append(t, core.Hex(s[0]), core.Hex(s[1]))
	}
	t = append(t, fmt.Sprint(len(h.Tags)))
	for _, s := range h.Tags {
		t = append(t, core.Hex(s))
	}
	t = append(t, fmt.Sprint(len(h.Meta)))
	for _, s := range h.Meta {
		t = append(t, core.Hex(s[0]), core.Hex(s[1]))
	}
	t = append(t, core.Hex(h.Notes))
	return strings.Join(t, " ")
}

// SigRec is the harness's own record of one entry of Envelope.Signatures:
// who made it and over which header (nothing here comes from gobl's verify code).
type SigRec struct {
	Null   bool
	Signer int // 1 | 2
	Hdr    Hdr
}

// Foreign is a signature made outside the history (on another envelope).
type Foreign struct {
	Sig    *dsig.Signature
	Signer int
	Hdr    Hdr
	What   string
}

// Digests maps real digest values to the content ids the model is told.
type Digests struct {
	mu       sync.Mutex
	byVal    map[string]int
	Conflict string
}

// NewDigests makes an empty table.
func NewDigests() *Digests { return &Digests{byVal: map[string]int{}} }

// Note records that the document with content id c has digest value v.
func (d *Digests) Note(v string, c int) {
	d.mu.Lock()
	defer d.mu.Unlock()
	if old, ok := d.byVal[v]; ok && old != c && d.Conflict == "" {
		d.Conflict = fmt.Sprintf("digest %s for content ids %d and %d", v, old, c)
	}
	d.byVal[v] = c
}

// Render gives the model's text for a digest value.
func (d *Digests) Render(v string) string {
	d.mu.Lock()
	defer d.mu.Unlock()
	if c, ok := d.byVal[v]; ok {
		return fmt.Sprintf("c%d", c)
	}
	return v
}

// St is the real envelope plus the harness's bookkeeping.
type St struct {
	Env  *gobl.Envelope
	Cur  int      // content id of the present document
	Sigs []SigRec // parallel to Env.Signatures
	Keys []*dsig.PrivateKey
	Dig  *Digests
	COW  bool // documents are shared between states: clone before mutating
	Pool []Foreign
	// MkPool builds the foreign-signature pool on first use.
	MkPool func(*St) []Foreign
}

// NewSt builds the empty envelope with a fixed identifier.
func NewSt(id string, keys []*dsig.PrivateKey, dig *Digests) *St {
	e := gobl.NewEnvelope()
	e.Head.UUID = uuid.UUID(id)
	return &St{Env: e, Keys: keys, Dig: dig}
}

func cloneHead(h *head.Header) *head.Header {
	if h == nil {
		return nil
	}
	n := *h
	if h.Digest != nil {
		d := *h.Digest
		n.Digest = &d
	}
	if h.Stamps != nil {
		n.Stamps = make([]*head.Stamp, len(h.Stamps))
		for i, s := range h.Stamps {
			c := *s
			n.Stamps[i] = &c
		}
	}
	if h.Links != nil {
		n.Links = make([]*head.Link, len(h.Links))
		for i, l := range h.Links {
			c := *l
			n.Links[i] = &c
		}
	}
	if h.Tags != nil {
		n.Tags = append([]string{}, h.Tags...)
	}
	if h.Meta != nil {
		n.Meta = make(cbc.Meta, len(h.Meta))
		for k, v := range h.Meta {
			n.Meta[k] = v
		}
	}
	return &n
}

// Clone copies the state; the document object is shared (see COW).
func (s *St) Clone() *St {
	n := *s
	e := *s.Env
	e.Head = cloneHead(s.Env.Head)
	if s.Env.Signatures != nil {
		e.Signatures = append([]*dsig.Signature{}, s.Env.Signatures...)
	}
	n.Env = &e
	n.Sigs = append([]SigRec{}, s.Sigs...)
	return &n
}

// Class maps an error of the envelope API to the outcome class of the model.
func Class(err error) string {
	if err == nil {
		return "ok"
	}
	var ge *gobl.Error
	if errors.As(err, &ge) {
		return ge.Key().String()
	}
	return "plain:" + err.Error()
}

// VerifyDetail canonicalises the result of Envelope.Verify:
// ok | unsigned | f:<verdict per signature>.
func VerifyDetail(err error, n int) string {
	if err == nil {
		return "ok"
	}
	if strings.HasSuffix(err.Error(), "no signatures to verify") {
		return "unsigned"
	}
	var ge *gobl.Error
	if !errors.As(err, &ge) || ge.Key().String() != "validation" || ge.Fields() == nil {
		return "other:" + err.Error()
	}
	inner, _ := ge.Fields()["signatures"].(validation.Errors)
	get := func(i int) string {
		e := inner[fmt.Sprint(i)]
		if e == nil {
			return "ok"
		}
		switch e.Error() {
		case "header mismatch":
			return "mismatch"
		case "no key match found":
			return "nokey"
		case "invalid signature payload":
			return "badpayload"
		}
		return "other(" + e.Error() + ")"
	}
	out := make([]string, n)
	for i := range out {
		out[i] = get(i)
	}
	return "f:" + strings.Join(out, ",")
}

// VerifyClass reduces a VerifyDetail to the outcome class.
func VerifyClass(d string) string {
	switch {
	case d == "ok", d == "unsigned":
		return d
	case strings.HasPrefix(d, "f:"):
		return "verify-failed"
	}
	return d
}

func (s *St) pubs(keys []int) []*dsig.PublicKey {
	out := make([]*dsig.PublicKey, len(keys))
	for i, k := range keys {
		out[i] = s.Keys[k-1].Public()
	}
	return out
}

// Verify runs Envelope.Verify with the keys given by index (1-based).
func (s *St) Verify(keys []int) string {
	return VerifyDetail(s.Env.Verify(s.pubs(keys)...), len(s.Env.Signatures))
}

func (s *St) ownDoc() {
	if s.COW && s.Env.Document != nil && !s.Env.Document.IsEmpty() {
		d, err := s.Env.Document.Clone()
		if err != nil {
			panic("envh: document clone: " + err.Error())
		}
		s.Env.Document = d
	}
}

func (s *St) noteDigest() {
	if s.Env.Head != nil && s.Env.Head.Digest != nil && s.Dig != nil {
		s.Dig.Note(s.Env.Head.Digest.Value, s.Cur)
	}
}

func setEdit(doc *schema.Object, c int, toggle bool) {
	switch p := doc.Instance().(type) {
	case *bill.Invoice:
		if p.Meta == nil {
			p.Meta = cbc.Meta{}
		}
		p.Meta["edit"] = fmt.Sprintf("c%d", c)
		if toggle {
			if p.Code == "" {
				p.Code = "T-1"
			} else {
				p.Code = ""
			}
		}
	case *note.Message:
		if p.Meta == nil {
			p.Meta = cbc.Meta{}
		}
		p.Meta["edit"] = fmt.Sprintf("c%d", c)
	default:
		panic("envh: unknown payload type")
	}
}

// Do executes one action on the real envelope and returns the outcome class.
func (s *St) Do(a Act) string {
	e := s.Env
	switch a.K {
	case "ins":
		b := Bases[a.Base]
		err := e.Insert(b.New())
		s.Cur = b.Content
		if err == nil {
			s.noteDigest()
		}
		return Class(err)
	case "calc":
		s.ownDoc()
		err := e.Calculate()
		if err == nil {
			s.noteDigest()
		}
		return Class(err)
	case "edit", "tcode":
		if e.Document == nil || e.Document.IsEmpty() {
			return "skip"
		}
		s.ownDoc()
		setEdit(e.Document, a.N, a.K == "tcode")
		s.Cur = a.N
		return "ok"
	case "sign":
		before := len(e.Signatures)
		snap := HdrOf(e.Head)
		err := e.Sign(s.Keys[a.N-1])
		switch {
		case len(e.Signatures) == before+1:
			s.Sigs = append(s.Sigs, SigRec{Signer: a.N, Hdr: snap})
		case len(e.Signatures) == 0:
			s.Sigs = nil
		default:
			return fmt.Sprintf("plain:Sign left %d signatures (had %d)", len(e.Signatures), before)
		}
		return Class(err)
	case "signbad":
		before := len(e.Signatures)
		err := e.Sign(new(dsig.PrivateKey))
		if len(e.Signatures) != before {
			return fmt.Sprintf("plain:Sign with an invalid key changed the signature list (%d -> %d)", before, len(e.Signatures))
		}
		return Class(err)
	case "unsign":
		e.Unsign()
		s.Sigs = nil
		return "ok"
	case "stamp":
		e.Head.AddStamp(&head.Stamp{Provider: cbc.Key(a.A), Value: a.B})
		return "ok"
	case "altstamp":
		if len(e.Head.Stamps) == 0 {
			return "skip"
		}
		e.Head.AddStamp(&head.Stamp{Provider: e.Head.Stamps[0].Provider, Value: a.A})
		return "ok"
	case "link":
		e.Head.AddLink(&head.Link{Key: cbc.Key(a.A), URL: a.B})
		return "ok"
	case "tag":
		e.Head.Tags = append(e.Head.Tags, a.A)
		return "ok"
	case "meta":
		if e.Head.Meta == nil {
			e.Head.Meta = cbc.Meta{}
		}
		e.Head.Meta[cbc.Key(a.A)] = a.B
		return "ok"
	case "notes":
		e.Head.Notes = a.A
		return "ok"
	case "validate":
		return Class(e.Validate())
	case "verify":
		return VerifyClass(s.Verify(a.Keys))
	case "rt":
		data, err := json.Marshal(e)
		if err != nil {
			return "marshal"
		}
		if a.N != 0 {
			var m map[string]json.RawMessage
			if err := json.Unmarshal(data, &m); err != nil {
				return "plain:" + err.Error()
			}
			var sigs []json.RawMessage
			if raw, ok := m["sigs"]; ok {
				_ = json.Unmarshal(raw, &sigs)
			}
			if a.N == 1 {
				sigs = append(sigs, json.RawMessage(`""`))
			} else {
				sigs = append(sigs, json.RawMessage(`null`))
			}
			m["sigs"], _ = json.Marshal(sigs)
			data, _ = json.Marshal(m)
		}
		ne := new(gobl.Envelope)
		if err := json.Unmarshal(data, ne); err != nil {
			return "parse"
		}
		s.Env = ne
		if a.N == 2 {
			s.Sigs = append(s.Sigs, SigRec{Null: true})
		}
		return "ok"
	// ---- raw manipulations (C09)
	case "tuuid":
		e.Head.UUID = uuid.UUID(a.A)
		return "ok"
	case "tdigval":
		if e.Head.Digest != nil {
			e.Head.Digest.Value = a.A
			// when the value is the digest of the present document, it is that content's name
			if e.Document != nil && !e.Document.IsEmpty() {
				if d, err := e.Digest(); err == nil && d.Value == a.A {
					s.noteDigest()
				}
			}
		}
		return "ok"
	case "tdigalg":
		if e.Head.Digest != nil {
			e.Head.Digest.Algorithm = dsig.DigestAlgorithm(a.A)
		}
		return "ok"
	case "tstampval":
		if a.N < len(e.Head.Stamps) {
			e.Head.Stamps[a.N].Value = a.A
		}
		return "ok"
	case "tdropstamp":
		if a.N < len(e.Head.Stamps) {
			e.Head.Stamps = append(append([]*head.Stamp{}, e.Head.Stamps[:a.N]...), e.Head.Stamps[a.N+1:]...)
		}
		return "ok"
	case "trawstamp":
		e.Head.Stamps = append(e.Head.Stamps, &head.Stamp{Provider: cbc.Key(a.A), Value: a.B})
		return "ok"
	case "tlinkurl":
		if a.N < len(e.Head.Links) {
			e.Head.Links[a.N].URL = a.A
		}
		return "ok"
	case "trawlink":
		e.Head.Links = append(e.Head.Links, &head.Link{Key: cbc.Key(a.A), URL: a.B})
		return "ok"
	case "tdroplink":
		if a.N < len(e.Head.Links) {
			e.Head.Links = append(append([]*head.Link{}, e.Head.Links[:a.N]...), e.Head.Links[a.N+1:]...)
		}
		return "ok"
	case "ttag":
		if a.N < len(e.Head.Tags) {
			e.Head.Tags[a.N] = a.A
		}
		return "ok"
	case "tdroptag":
		if a.N < len(e.Head.Tags) {
			e.Head.Tags = append(append([]string{}, e.Head.Tags[:a.N]...), e.Head.Tags[a.N+1:]...)
		}
		return "ok"
	case "tdropmeta":
		delete(e.Head.Meta, cbc.Key(a.A))
		return "ok"
	case "tsigs":
		if s.Pool == nil && s.MkPool != nil {
			s.Pool = s.MkPool(s)
		}
		e.Signatures = nil
		s.Sigs = nil
		for _, i := range a.Pool {
			f := s.Pool[i]
			e.Signatures = append(e.Signatures, f.Sig)
			s.Sigs = append(s.Sigs, SigRec{Signer: f.Signer, Hdr: f.Hdr})
		}
		return "ok"
	}
	panic("envh: unknown action " + a.K)
}

// Token renders an action for the Lean driver.
func (s *St) Token(a Act) string {
	switch a.K {
	case "ins":
		b := Bases[a.Base]
		return fmt.Sprintf("ins %d %s %s %s %s", b.Content, b01(b.CalcOk), b01(b.Valid), b01(b.NeedsCode), b01(b.HasCode))
	case "calc", "signbad", "unsign", "validate":
		return a.K
	case "edit", "tcode", "sign", "rt":
		return fmt.Sprintf("%s %d", a.K, a.N)
	case "stamp", "link", "meta", "trawstamp", "trawlink":
		return fmt.Sprintf("%s %s %s", a.K, core.Hex(a.A), core.Hex(a.B))
	case "tdigval":
		// a real digest value is named the way the model names it
		v := a.A
		if s.Dig != nil {
			v = s.Dig.Render(v)
		}
		return fmt.Sprintf("%s %s", a.K, core.Hex(v))
	case "altstamp", "tag", "notes", "tuuid", "tdigalg", "tdropmeta":
		return fmt.Sprintf("%s %s", a.K, core.Hex(a.A))
	case "verify":
		t := fmt.Sprintf("verify %d", len(a.Keys))
		for _, k := range a.Keys {
			t += fmt.Sprintf(" %d", k)
		}
		return t
	case "tstampval", "tlinkurl", "ttag":
		return fmt.Sprintf("%s %d %s", a.K, a.N, core.Hex(a.A))
	case "tdropstamp", "tdroplink", "tdroptag":
		return fmt.Sprintf("%s %d", a.K, a.N)
	case "tsigs":
		if s.Pool == nil && s.MkPool != nil {
			s.Pool = s.MkPool(s)
		}
		t := fmt.Sprintf("tsigs %d", len(a.Pool))
		for _, i := range a.Pool {
			f := s.Pool[i]
			t += fmt.Sprintf(" %d %s", f.Signer, f.Hdr.Tokens(s.Dig.Render))
		}
		return t
	}
	panic("envh: unknown action " + a.K)
}
