package calcproto

// FixedFinerThanPresented is a known-finding classifier: fixed amounts that the calculation rounds in place when presenting them
// (finer than the currency for document rows and advances, finer than the
// item price for line rows): the stored input no longer equals what the
// totals were computed from, so any recalculation — Invert recalculates —
// starts from different figures.
func FixedFinerThanPresented(d *Doc, c uint32) bool {
	fixed := func(p *Amt) bool { return p == nil || p.V == 0 }
	// exponent of an item's price once it is expressed in the document currency
	priceExp := func(it *Item) (uint32, bool) {
		if it == nil || it.Price == nil {
			return 0, false
		}
		if it.Cur != "" && it.Cur != d.Cur {
			for _, a := range it.Alts {
				if a.Cur == d.Cur {
					return max(a.Value.E, c), true
				}
			}
			return c, true // converted with an exchange rate: rounded to the currency
		}
		return max(it.Price.E, c), true
	}
	adjs := func(ds, cs []LineAdj, e uint32) bool {
		for _, x := range ds {
			if fixed(x.Percent) && x.Amount.E > e {
				return true
			}
		}
		for _, x := range cs {
			if x.Rate != nil && x.Rate.E > e {
				return true
			}
			if x.Rate == nil && fixed(x.Percent) && x.Amount.E > e {
				return true
			}
		}
		return false
	}
	for _, l := range d.Lines {
		e, _ := priceExp(l.Item)
		if len(l.Breakdown) > 0 {
			be, any := uint32(0), false
			for _, s := range l.Breakdown {
				if x, ok := priceExp(s.Item); ok {
					any = true
					be = max(be, x)
				}
			}
			if any {
				e = be
			}
		}
		if adjs(l.Discounts, l.Charges, e) {
			return true
		}
		// sub-line rows are never rounded for presentation, but the replaced item
		// price is: a breakdown whose total is finer than the price precision
		for _, s := range l.Breakdown {
			if adjs(s.Discounts, s.Charges, e) {
				return true
			}
		}
	}
	for _, x := range append(append([]DocAdj{}, d.Discounts...), d.Charges...) {
		if fixed(x.Percent) && x.Amount.E > c {
			return true
		}
	}
	for _, x := range d.Advances {
		if x.Percent == nil && x.Amount.E > c {
			return true
		}
	}
	return false
}
