package calcproto

import (
	"bytes"
	"encoding/json"
	"fmt"
	"math/big"

	"github.com/invopop/gobl/bill"
	"github.com/invopop/gobl/num"
)

// Edits are input edits applied to an already calculated invoice before it is
// calculated again.  Every calculated figure must then come from the edited
// inputs alone ("recompute everything from inputs, reset totals").
var Edits = []struct {
	Name  string
	Apply func(inv *bill.Invoice) bool // false: not applicable
}{
	{"drop-advances", func(inv *bill.Invoice) bool {
		if inv.Payment == nil || len(inv.Payment.Advances) == 0 {
			return false
		}
		inv.Payment.Advances = nil
		return true
	}},
	{"drop-payment", func(inv *bill.Invoice) bool {
		if inv.Payment == nil {
			return false
		}
		inv.Payment = nil
		return true
	}},
	{"drop-discounts", func(inv *bill.Invoice) bool {
		if len(inv.Discounts) == 0 {
			return false
		}
		inv.Discounts = nil
		return true
	}},
	{"drop-charges", func(inv *bill.Invoice) bool {
		if len(inv.Charges) == 0 {
			return false
		}
		inv.Charges = nil
		return true
	}},
	{"drop-prices-include", func(inv *bill.Invoice) bool {
		if inv.Tax == nil || inv.Tax.PricesInclude == "" {
			return false
		}
		inv.Tax.PricesInclude = ""
		return true
	}},
	{"drop-all-taxes", func(inv *bill.Invoice) bool {
		any := false
		for _, l := range inv.Lines {
			any = any || len(l.Taxes) > 0
			l.Taxes = nil
		}
		for _, d := range inv.Discounts {
			any = any || len(d.Taxes) > 0
			d.Taxes = nil
		}
		for _, d := range inv.Charges {
			any = any || len(d.Taxes) > 0
			d.Taxes = nil
		}
		if inv.Tax != nil {
			inv.Tax.PricesInclude = ""
		}
		return any
	}},
	{"drop-last-line", func(inv *bill.Invoice) bool {
		if len(inv.Lines) < 2 {
			return false
		}
		inv.Lines = inv.Lines[:len(inv.Lines)-1]
		return true
	}},
	{"drop-line-adjustments", func(inv *bill.Invoice) bool {
		any := false
		for _, l := range inv.Lines {
			any = any || len(l.Discounts) > 0 || len(l.Charges) > 0
			l.Discounts, l.Charges = nil, nil
		}
		return any
	}},
	{"drop-rounding", func(inv *bill.Invoice) bool {
		if inv.Totals == nil || inv.Totals.Rounding == nil {
			return false
		}
		inv.Totals.Rounding = nil
		return true
	}},
}

func cloneInvoice(inv *bill.Invoice) (*bill.Invoice, error) {
	b, err := json.Marshal(inv)
	if err != nil {
		return nil, err
	}
	out := new(bill.Invoice)
	if err := json.Unmarshal(b, out); err != nil {
		return nil, err
	}
	return out, nil
}

// RecalcAfterEdit takes a CALCULATED invoice and one edit.  It calculates two
// re-read copies of it after the edit: A keeps every stored calculated figure
// (what a caller who edits and recalculates has), B has its totals dropped
// first (only the externally supplied rounding is an input).  It returns A, and
// a description of the first difference between the two results ("" = none).
// ok=false: the edit does not apply or a copy does not calculate.
func RecalcAfterEdit(inv *bill.Invoice, edit int) (a *bill.Invoice, diff string, ok bool) {
	ca, err := cloneInvoice(inv)
	if err != nil {
		return nil, "", false
	}
	cb, err := cloneInvoice(inv)
	if err != nil {
		return nil, "", false
	}
	if cb.Totals != nil {
		cb.Totals = &bill.Totals{Rounding: cb.Totals.Rounding}
	}
	e := Edits[edit]
	if !e.Apply(ca) || !e.Apply(cb) {
		return nil, "", false
	}
	if ca.Calculate() != nil || cb.Calculate() != nil {
		return nil, "", false
	}
	ja, _ := json.Marshal(ca)
	jb, _ := json.Marshal(cb)
	if !bytes.Equal(ja, jb) {
		i := 0
		for i < len(ja) && i < len(jb) && ja[i] == jb[i] {
			i++
		}
		lo := i - 60
		if lo < 0 {
			lo = 0
		}
		hi := func(b []byte) int {
			if i+60 < len(b) {
				return i + 60
			}
			return len(b)
		}
		diff = fmt.Sprintf("after %s: with the stored figures …%s… / from the inputs alone …%s…", e.Name, ja[lo:hi(ja)], jb[lo:hi(jb)])
	}
	return ca, diff, true
}

// AfterRemoval gives a re-read copy of a calculated invoice on which
// Invoice.RemoveIncludedTaxes has been called (ok=false: prices include no
// tax, or the removal fails).  The copy is a calculated document like any
// other: whatever C03 says of presented figures holds of it.
func AfterRemoval(inv *bill.Invoice) (a *bill.Invoice, ok bool) {
	if inv.Tax == nil || inv.Tax.PricesInclude == "" {
		return nil, false
	}
	a, err := cloneInvoice(inv)
	if err != nil {
		return nil, false
	}
	if err := a.RemoveIncludedTaxes(); err != nil {
		return nil, false
	}
	return a, true
}

// TooLargeForRemoval: RemoveIncludedTaxes raises every price and fixed amount
// by two decimals and divides; beyond 2^52 units at the finest precision
// present plus two the float detour of num.Amount is no longer exact (C05's
// domain) and int64 can overflow.  (Same judgement as props/c17.)
func TooLargeForRemoval(inv *bill.Invoice) bool {
	maxExp := uint32(0)
	var all []num.Amount
	note := func(a num.Amount) {
		all = append(all, a)
		if a.Exp() > maxExp {
			maxExp = a.Exp()
		}
	}
	if inv.Totals != nil {
		note(inv.Totals.Sum)
		note(inv.Totals.TotalWithTax)
	}
	for _, l := range inv.Lines {
		if l.Item != nil && l.Item.Price != nil {
			note(*l.Item.Price)
		}
		if l.Sum != nil {
			note(*l.Sum)
		}
		if l.Total != nil {
			note(*l.Total)
		}
	}
	lim := new(big.Int).Lsh(big.NewInt(1), 52)
	for _, a := range all {
		v := new(big.Int).Abs(big.NewInt(a.Value()))
		v.Mul(v, new(big.Int).Exp(big.NewInt(10), big.NewInt(int64(maxExp+2-a.Exp())), nil))
		if v.Cmp(lim) >= 0 {
			return true
		}
	}
	return false
}
