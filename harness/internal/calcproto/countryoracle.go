package calcproto

import (
	"fmt"
	"sort"
	"strings"

	"github.com/invopop/gobl/bill"
	"github.com/invopop/gobl/tax"
)

// WrittenCountries judges the "country" part of C02's group key at its source:
// rate groups are distinguished by the country the issuer wrote on a combo, and
// the only code that is no override is the tax country of the document's own
// regime.  TaxSummaryOracle reads the group keys from the calculated combos; this
// relation ties those to the description the document was built from:
//
//   - every row keeps its combos, and every combo the country written on it
//     (blank when it literally repeats the document's tax country);
//   - per category, the countries of the rate groups of the summary are exactly
//     the countries written on the combos of that category.
//
// Nothing here depends on which codes a regime is registered under.
func WrittenCountries(d *Doc, inv *bill.Invoice) []string {
	var errs []string
	bad := func(f string, a ...any) { errs = append(errs, fmt.Sprintf(f, a...)) }
	want := map[string]map[string]bool{} // category -> written countries
	row := func(name string, in []Combo, out tax.Set, counted bool) {
		if len(in) != len(out) {
			bad("%s: %d combos written, %d after the calculation", name, len(in), len(out))
			return
		}
		for i, cb := range in {
			w := WrittenCountry(d.Country, cb.Country)
			if got := string(out[i].Country); got != w {
				bad("%s combo %d (%s): country %q was written (document tax country %q), the calculated combo has %q", name, i, cb.Cat, cb.Country, DocTaxCountry(d.Country), got)
			}
			if counted {
				if want[cb.Cat] == nil {
					want[cb.Cat] = map[string]bool{}
				}
				want[cb.Cat][w] = true
			}
		}
	}
	if len(inv.Lines) != len(d.Lines) || len(inv.Discounts) != len(d.Discounts) || len(inv.Charges) != len(d.Charges) {
		return errs
	}
	for i, l := range inv.Lines {
		row(fmt.Sprintf("line %d", i), d.Lines[i].Taxes, l.Taxes, l.Total != nil)
	}
	for i, x := range inv.Discounts {
		row(fmt.Sprintf("discount %d", i), d.Discounts[i].Taxes, x.Taxes, true)
	}
	for i, x := range inv.Charges {
		row(fmt.Sprintf("charge %d", i), d.Charges[i].Taxes, x.Taxes, true)
	}
	if inv.Totals == nil || inv.Totals.Taxes == nil {
		return errs
	}
	set := func(m map[string]bool) string {
		var ks []string
		for k := range m {
			ks = append(ks, fmt.Sprintf("%q", k))
		}
		sort.Strings(ks)
		return "{" + strings.Join(ks, ",") + "}"
	}
	for _, ct := range inv.Totals.Taxes.Categories {
		got := map[string]bool{}
		for _, rt := range ct.Rates {
			got[string(rt.Country)] = true
		}
		w := want[string(ct.Code)]
		if w == nil {
			w = map[string]bool{}
		}
		if set(got) != set(w) {
			bad("category %s: its rate groups have the countries %s, the combos of that category were written with %s", ct.Code, set(got), set(w))
		}
	}
	return errs
}
