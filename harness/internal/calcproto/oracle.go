package calcproto

import (
	"fmt"
	"math/big"

	"github.com/invopop/gobl/bill"
	"github.com/invopop/gobl/num"
)

// rat reads an amount as an exact rational.
func rat(a num.Amount) *big.Rat {
	d := new(big.Int).Exp(big.NewInt(10), big.NewInt(int64(a.Exp())), nil)
	return new(big.Rat).SetFrac(big.NewInt(a.Value()), d)
}

func ratP(a *num.Amount) *big.Rat {
	if a == nil {
		return new(big.Rat)
	}
	return rat(*a)
}

// roundHalfAway rounds q·10^e to an integer, half away from zero.
func roundHalfAway(q *big.Rat, e uint32) *big.Int {
	s := new(big.Rat).Mul(q, new(big.Rat).SetInt(new(big.Int).Exp(big.NewInt(10), big.NewInt(int64(e)), nil)))
	neg := s.Sign() < 0
	if neg {
		s.Neg(s)
	}
	s.Add(s, big.NewRat(1, 2))
	f := new(big.Int).Quo(s.Num(), s.Denom()) // floor for non-negative
	if neg {
		f.Neg(f)
	}
	return f
}

func eq(a, b *big.Rat) bool { return a.Cmp(b) == 0 }

// ReaddIdentities evaluates C03's re-add identities on the figures an
// invoice presents (nothing but the presented JSON fields is used).  c is the
// number of decimals of the document currency.
func ReaddIdentities(inv *bill.Invoice, c uint32) []string {
	var errs []string
	bad := func(f string, a ...any) { errs = append(errs, fmt.Sprintf(f, a...)) }
	t := inv.Totals
	if t == nil {
		return nil
	}
	lineTotals := new(big.Rat)
	for i, l := range inv.Lines {
		if l.Sum == nil || l.Total == nil {
			continue
		}
		x := rat(*l.Sum)
		for _, d := range l.Discounts {
			x.Sub(x, rat(d.Amount))
		}
		for _, d := range l.Charges {
			x.Add(x, rat(d.Amount))
		}
		if !eq(x, rat(*l.Total)) {
			bad("line %d: sum - discounts + charges = %s but total = %s", i, x.FloatString(6), l.Total.String())
		}
		lineTotals.Add(lineTotals, rat(*l.Total))
		maxE := c
		if l.Item != nil && l.Item.Price != nil && l.Item.Price.Exp() > maxE {
			maxE = l.Item.Price.Exp()
		}
		if l.Sum.Exp() > maxE || l.Total.Exp() > maxE {
			bad("line %d: sum/total carry more decimals (%d/%d) than currency or item price (%d)", i, l.Sum.Exp(), l.Total.Exp(), maxE)
		}
	}
	if !eq(lineTotals, rat(t.Sum)) {
		bad("sum of line totals %s != totals.sum %s", lineTotals.FloatString(6), t.Sum.String())
	}
	ds, cs := new(big.Rat), new(big.Rat)
	for _, d := range inv.Discounts {
		ds.Add(ds, rat(d.Amount))
	}
	for _, d := range inv.Charges {
		cs.Add(cs, rat(d.Amount))
	}
	if len(inv.Discounts) > 0 && !eq(ds, ratP(t.Discount)) {
		bad("sum of discounts %s != totals.discount %s", ds.FloatString(6), t.Discount.String())
	}
	if len(inv.Charges) > 0 && !eq(cs, ratP(t.Charge)) {
		bad("sum of charges %s != totals.charge %s", cs.FloatString(6), t.Charge.String())
	}
	x := rat(t.Sum)
	x.Sub(x, ratP(t.Discount))
	x.Add(x, ratP(t.Charge))
	x.Sub(x, ratP(t.TaxIncluded))
	if !eq(x, rat(t.Total)) {
		bad("sum - discount + charge - tax_included = %s but total = %s", x.FloatString(6), t.Total.String())
	}
	if t.Taxes != nil {
		tsum := new(big.Rat)
		for _, ct := range t.Taxes.Categories {
			ca, csur := new(big.Rat), new(big.Rat)
			hasSur := false
			for _, rt := range ct.Rates {
				if rt.Percent != nil {
					want := roundHalfAway(new(big.Rat).Mul(rat(rt.Base), rat(rt.Percent.Base())), c)
					if rt.Amount.Exp() != c || want.Cmp(big.NewInt(rt.Amount.Value())) != 0 {
						bad("category %s: rate amount %s is not %s of presented base %s rounded to the currency", ct.Code, rt.Amount.String(), rt.Percent.String(), rt.Base.String())
					}
					if rt.Surcharge != nil {
						want := roundHalfAway(new(big.Rat).Mul(rat(rt.Base), rat(rt.Surcharge.Percent.Base())), c)
						if want.Cmp(big.NewInt(rt.Surcharge.Amount.Value())) != 0 {
							bad("category %s: surcharge amount %s is not %s of presented base %s", ct.Code, rt.Surcharge.Amount.String(), rt.Surcharge.Percent.String(), rt.Base.String())
						}
						csur.Add(csur, rat(rt.Surcharge.Amount))
						hasSur = true
					}
				}
				ca.Add(ca, rat(rt.Amount))
				if rt.Base.Exp() > c || rt.Amount.Exp() > c {
					bad("category %s: rate figures carry more decimals than the currency", ct.Code)
				}
			}
			if !eq(ca, rat(ct.Amount)) {
				bad("category %s: sum of rate amounts %s != category amount %s", ct.Code, ca.FloatString(6), ct.Amount.String())
			}
			if hasSur && !eq(csur, ratP(ct.Surcharge)) {
				bad("category %s: sum of rate surcharges %s != category surcharge %s", ct.Code, csur.FloatString(6), ct.Surcharge.String())
			}
			part := new(big.Rat).Add(rat(ct.Amount), ratP(ct.Surcharge))
			if ct.Retained {
				tsum.Sub(tsum, part)
			} else {
				tsum.Add(tsum, part)
			}
		}
		if !eq(tsum, rat(t.Taxes.Sum)) {
			bad("ordinary minus retained category amounts (with surcharges) %s != taxes.sum %s", tsum.FloatString(6), t.Taxes.Sum.String())
		}
		if !eq(rat(t.Taxes.Sum), rat(t.Tax)) {
			bad("taxes.sum %s != totals.tax %s", t.Taxes.Sum.String(), t.Tax.String())
		}
	}
	if y := new(big.Rat).Add(rat(t.Total), rat(t.Tax)); !eq(y, rat(t.TotalWithTax)) {
		bad("total + tax = %s but total_with_tax = %s", y.FloatString(6), t.TotalWithTax.String())
	}
	if y := new(big.Rat).Add(rat(t.TotalWithTax), ratP(t.Rounding)); !eq(y, rat(t.Payable)) {
		bad("total_with_tax + rounding = %s but payable = %s", y.FloatString(6), t.Payable.String())
	}
	if t.Due != nil {
		if y := new(big.Rat).Sub(rat(t.Payable), ratP(t.Advances)); !eq(y, rat(*t.Due)) {
			bad("payable - advances = %s but due = %s", y.FloatString(6), t.Due.String())
		}
	}
	if inv.Payment != nil && len(inv.Payment.Advances) > 0 {
		as := new(big.Rat)
		for _, a := range inv.Payment.Advances {
			as.Add(as, rat(a.Amount))
		}
		if !eq(as, ratP(t.Advances)) {
			bad("sum of advances %s != totals.advance %s", as.FloatString(6), t.Advances.String())
		}
	}
	for name, a := range map[string]*num.Amount{"sum": &t.Sum, "discount": t.Discount, "charge": t.Charge, "tax_included": t.TaxIncluded,
		"total": &t.Total, "tax": &t.Tax, "total_with_tax": &t.TotalWithTax, "payable": &t.Payable, "advance": t.Advances, "due": t.Due} {
		if a != nil && a.Exp() != c {
			bad("totals.%s has %d decimals, currency has %d", name, a.Exp(), c)
		}
	}
	return errs
}

// OutsideExactDomain reports whether a calculated invoice presents a tax row
// whose amount is a product beyond C05's domain: Percentage.Of goes through
// float64(base) * float64(percent), exact only while |base x percent| (in units)
// stays below 2^52.  Documents edited after their first calculation (the
// recalculation family) are not sent through the model, whose two operation
// sets decide the domain for generated documents, so their magnitudes are
// judged here (found by a background sweep, thorough seed 31: dropping
// prices_include raised a 1.9e13-unit base under a 7469 % rate).
func OutsideExactDomain(inv *bill.Invoice) bool {
	if inv.Totals == nil || inv.Totals.Taxes == nil {
		return false
	}
	lim := new(big.Int).Lsh(big.NewInt(1), 52)
	over := func(a, p num.Amount) bool {
		v := new(big.Int).Mul(big.NewInt(a.Value()), big.NewInt(p.Value()))
		return v.Abs(v).Cmp(lim) >= 0
	}
	for _, ct := range inv.Totals.Taxes.Categories {
		for _, rt := range ct.Rates {
			if rt.Percent != nil && over(rt.Base, rt.Percent.Base()) {
				return true
			}
			if rt.Surcharge != nil && over(rt.Base, rt.Surcharge.Percent.Base()) {
				return true
			}
		}
	}
	return false
}
