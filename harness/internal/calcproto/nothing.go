package calcproto

import "math/rand"

// The representation of "nothing".  C02 distinguishes rate groups "by country, percentage,
// surcharge and extensions": by what these ARE, not by how an absent one is written.  A JSON
// reader leaves several states for a member that says nothing (NoneSpellings: absent / null,
// `{}`, members with an empty value that normalisation drops), on a combo without extensions and
// next to the real extensions of a combo that has some.  This family puts the same rate on two
// or three rows (lines, document discounts and charges alike) with DIFFERENT spellings of the
// same extension content — same category, country, percentage (in any number of decimals),
// surcharge — so that the partition oracle, which compares extensions by content, demands ONE
// group for them; the rows the generator made anyway get a random spelling now and then, which
// covers exempt rows, rate keys, overrides and retained categories.

func genNothingSpellings(r *rand.Rand, d *Doc) {
	rows := rowTaxes(d)
	// (a) any combo, now and then: another spelling of what it already says
	for _, ts := range rows {
		for i := range *ts {
			if r.Intn(12) == 0 {
				(*ts)[i].ExtNone = NoneSpellings[r.Intn(len(NoneSpellings))]
			}
		}
	}
	// (b) one rate copied to other rows, every copy with a spelling of its own
	if r.Intn(6) != 0 {
		return
	}
	ensureRows(r, d, 2+r.Intn(2))
	rows = rowTaxes(d)
	type at struct{ row, i int }
	var have []at
	for ri, ts := range rows {
		for i := range *ts {
			have = append(have, at{ri, i})
		}
	}
	var src Combo
	from := -1
	if len(have) > 0 {
		h := have[r.Intn(len(have))]
		from, src = h.row, (*rows[h.row])[h.i]
	} else {
		from = r.Intn(len(rows))
		src = Combo{Cat: "VAT", Percent: genPct(r)}
		setCombo(rows[from], src)
	}
	spell := r.Perm(len(NoneSpellings))
	// the source row keeps its place and takes the first spelling, the copies the next ones
	for i := range *rows[from] {
		if (*rows[from])[i].Cat == src.Cat {
			(*rows[from])[i].ExtNone = NoneSpellings[spell[0]]
		}
	}
	k := 1
	for _, ix := range r.Perm(len(rows)) {
		if ix == from {
			continue
		}
		cp := src
		cp.Percent, cp.Surcharge = respelled(r, cp.Percent), respelled(r, cp.Surcharge)
		cp.ExtNone = NoneSpellings[spell[k%len(spell)]]
		setCombo(rows[ix], cp)
		if k++; k > 1+r.Intn(2) {
			break
		}
	}
}
