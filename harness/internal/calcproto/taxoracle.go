package calcproto

import (
	"fmt"
	"math/big"

	"github.com/invopop/gobl/bill"
	"github.com/invopop/gobl/num"
	"github.com/invopop/gobl/tax"
)

type groupKey struct {
	country, ext, pct, sur string
	exempt                 bool
}

func pctText(p *num.Percentage) string {
	if p == nil {
		return "-"
	}
	return rat(p.Base()).RatString()
}

func keyOf(c *tax.Combo) groupKey {
	k := groupKey{country: string(c.Country), ext: ExtText(c.Ext)}
	if c.Percent == nil {
		k.exempt = true
		return k
	}
	k.pct = pctText(c.Percent)
	k.sur = pctText(c.Surcharge)
	return k
}

func keyOfRate(rt *tax.RateTotal) groupKey {
	k := groupKey{country: string(rt.Country), ext: ExtText(rt.Ext)}
	if rt.Percent == nil {
		k.exempt = true
		return k
	}
	k.pct = pctText(rt.Percent)
	if rt.Surcharge != nil {
		k.sur = rat(rt.Surcharge.Percent.Base()).RatString()
	} else {
		k.sur = "-"
	}
	return k
}

type taxRow struct {
	total *big.Rat // presented tax-exclusive-or-not total of the row
	taxes tax.Set
}

func unit(c uint32) *big.Rat {
	return new(big.Rat).SetFrac(big.NewInt(1), new(big.Int).Exp(big.NewInt(10), big.NewInt(int64(c)), nil))
}

func absRat(x *big.Rat) *big.Rat { return new(big.Rat).Abs(x) }

// TaxSummaryOracle evaluates C02 on a calculated invoice.  Structure
// (partition into groups) is judged exactly; figures are judged exactly under
// the currency rule and within the stated rounding slack under precise
// (presented rows are rounded values of the working-precision figures).
func TaxSummaryOracle(inv *bill.Invoice, c uint32, currencyRule bool, includes string) []string {
	var errs []string
	bad := func(f string, a ...any) { errs = append(errs, fmt.Sprintf(f, a...)) }
	t := inv.Totals
	if t == nil {
		return nil
	}
	var rows []taxRow
	for _, l := range inv.Lines {
		if l.Total != nil {
			rows = append(rows, taxRow{rat(*l.Total), l.Taxes})
		}
	}
	for _, d := range inv.Discounts {
		rows = append(rows, taxRow{new(big.Rat).Neg(rat(d.Amount)), d.Taxes})
	}
	for _, d := range inv.Charges {
		rows = append(rows, taxRow{rat(d.Amount), d.Taxes})
	}
	// expected partition
	type grp struct {
		key   groupKey
		base  *big.Rat
		nrows int
	}
	type cat struct {
		code   string
		groups []*grp
	}
	var cats []*cat
	u := unit(c)
	amplify := big.NewRat(1, 1)
	for _, rw := range rows {
		tot := new(big.Rat).Set(rw.total)
		if includes != "" {
			for _, cb := range rw.taxes {
				if string(cb.Category) == includes {
					if cb.Percent != nil {
						f := new(big.Rat).Add(big.NewRat(1, 1), rat(cb.Percent.Base()))
						if f.Sign() != 0 {
							tot.Quo(tot, f)
							// dividing by a factor below one magnifies the half-unit
							// uncertainty of the presented row accordingly
							if inv := new(big.Rat).Inv(absRat(f)); inv.Cmp(amplify) > 0 {
								amplify = inv
							}
						}
					}
					break
				}
			}
		}
		for _, cb := range rw.taxes {
			var ct *cat
			for _, x := range cats {
				if x.code == string(cb.Category) {
					ct = x
					break
				}
			}
			if ct == nil {
				ct = &cat{code: string(cb.Category)}
				cats = append(cats, ct)
			}
			k := keyOf(cb)
			var g *grp
			for _, x := range ct.groups {
				if x.key == k {
					g = x
					break
				}
			}
			if g == nil {
				g = &grp{key: k, base: new(big.Rat)}
				ct.groups = append(ct.groups, g)
			}
			g.base.Add(g.base, tot)
			g.nrows++
		}
	}
	if t.Taxes == nil {
		if len(cats) > 0 {
			bad("taxed rows exist but the summary has no categories")
		}
		return errs
	}
	if len(t.Taxes.Categories) != len(cats) {
		bad("summary has %d categories, the rows carry %d", len(t.Taxes.Categories), len(cats))
		return errs
	}
	taxSum := new(big.Rat)
	slackSum := new(big.Rat)
	onlyIncluded := includes != ""
	for i, ct := range t.Taxes.Categories {
		want := cats[i]
		if string(ct.Code) != want.code {
			bad("category %d is %s, expected %s (order of first appearance)", i, ct.Code, want.code)
			continue
		}
		if want.code != includes {
			onlyIncluded = false
		}
		if len(ct.Rates) != len(want.groups) {
			bad("category %s has %d rate groups, the rows define %d distinct (country, percent, surcharge, extensions | exempt) keys", ct.Code, len(ct.Rates), len(want.groups))
			continue
		}
		seen := map[groupKey]bool{}
		catAmount, catSur := new(big.Rat), new(big.Rat)
		hasSur := false
		for j, rt := range ct.Rates {
			k := keyOfRate(rt)
			if seen[k] {
				bad("category %s has two groups with the same key %+v", ct.Code, k)
			}
			seen[k] = true
			g := want.groups[j]
			if k != g.key {
				bad("category %s group %d has key %+v, expected %+v", ct.Code, j, k, g.key)
				continue
			}
			// base = sum of the tax-exclusive totals of its rows
			diff := absRat(new(big.Rat).Sub(rat(rt.Base), g.base))
			slack := new(big.Rat)
			if !currencyRule || includes != "" {
				// each presented row is within half a unit of its working value (twice with included-tax removal), plus the base's own rounding
				slack.Mul(u, big.NewRat(int64(2*g.nrows+1), 2))
				slack.Mul(slack, big.NewRat(2, 1))
				slack.Mul(slack, amplify)
			}
			if diff.Cmp(slack) > 0 {
				bad("category %s group %d: base %s differs from the sum of its rows' tax-exclusive totals %s by more than %s", ct.Code, j, rt.Base.String(), g.base.FloatString(int(c)+3), slack.FloatString(int(c)+2))
			}
			if rt.Percent == nil {
				if !rt.Amount.IsZero() {
					bad("category %s exempt group %d has amount %s", ct.Code, j, rt.Amount.String())
				}
			} else {
				wantAmt := new(big.Rat).Mul(rat(rt.Base), rat(rt.Percent.Base()))
				d := absRat(new(big.Rat).Sub(rat(rt.Amount), wantAmt))
				sl := new(big.Rat).Mul(u, big.NewRat(1, 2))
				if !currencyRule {
					// presented base within half a unit of the working base, and the amount
					// is first rounded at the working precision (>= currency + 2 decimals)
					sl.Add(sl, new(big.Rat).Mul(new(big.Rat).Mul(u, big.NewRat(1, 2)), absRat(rat(rt.Percent.Base()))))
					sl.Add(sl, new(big.Rat).Mul(u, big.NewRat(1, 200)))
				}
				if d.Cmp(sl) > 0 {
					bad("category %s group %d: amount %s is not %s of base %s", ct.Code, j, rt.Amount.String(), rt.Percent.String(), rt.Base.String())
				}
				if rt.Surcharge != nil {
					hasSur = true
					onlyIncluded = false // a surcharge is a further tax on top of the included one
					ws := new(big.Rat).Mul(rat(rt.Base), rat(rt.Surcharge.Percent.Base()))
					d := absRat(new(big.Rat).Sub(rat(rt.Surcharge.Amount), ws))
					sl := new(big.Rat).Mul(u, big.NewRat(1, 2))
					if !currencyRule {
						sl.Add(sl, new(big.Rat).Mul(new(big.Rat).Mul(u, big.NewRat(1, 2)), absRat(rat(rt.Surcharge.Percent.Base()))))
						sl.Add(sl, new(big.Rat).Mul(u, big.NewRat(1, 200)))
					}
					if d.Cmp(sl) > 0 {
						bad("category %s group %d: surcharge %s is not %s of base %s", ct.Code, j, rt.Surcharge.Amount.String(), rt.Surcharge.Percent.String(), rt.Base.String())
					}
					catSur.Add(catSur, rat(rt.Surcharge.Amount))
				}
			}
			catAmount.Add(catAmount, rat(rt.Amount))
		}
		sl := new(big.Rat)
		if !currencyRule {
			sl.Mul(u, big.NewRat(int64(len(ct.Rates)+1), 2))
		}
		if d := absRat(new(big.Rat).Sub(catAmount, rat(ct.Amount))); d.Cmp(sl) > 0 {
			bad("category %s: amount %s is not the sum of its groups %s", ct.Code, ct.Amount.String(), catAmount.FloatString(int(c)+2))
		}
		if hasSur != (ct.Surcharge != nil) {
			bad("category %s: surcharge presence %v but groups with surcharge %v", ct.Code, ct.Surcharge != nil, hasSur)
		} else if hasSur {
			if d := absRat(new(big.Rat).Sub(catSur, rat(*ct.Surcharge))); d.Cmp(sl) > 0 {
				bad("category %s: surcharge %s is not the sum of its groups %s", ct.Code, ct.Surcharge.String(), catSur.FloatString(int(c)+2))
			}
		}
		part := new(big.Rat).Add(rat(ct.Amount), ratP(ct.Surcharge))
		if ct.Retained {
			taxSum.Sub(taxSum, part)
		} else {
			taxSum.Add(taxSum, part)
		}
		if !currencyRule {
			slackSum.Add(slackSum, u)
		}
	}
	if !currencyRule {
		slackSum.Add(slackSum, new(big.Rat).Mul(u, big.NewRat(1, 2)))
	}
	if d := absRat(new(big.Rat).Sub(taxSum, rat(t.Taxes.Sum))); d.Cmp(slackSum) > 0 {
		bad("tax sum %s is not ordinary minus retained categories (with surcharges) %s", t.Taxes.Sum.String(), taxSum.FloatString(int(c)+2))
	}
	if onlyIncluded && len(cats) == 1 {
		gross := rat(t.Sum)
		gross.Sub(gross, ratP(t.Discount))
		gross.Add(gross, ratP(t.Charge))
		sl := new(big.Rat)
		if !currencyRule {
			sl.Mul(u, big.NewRat(2, 1))
		}
		if d := absRat(new(big.Rat).Sub(gross, rat(t.TotalWithTax))); d.Cmp(sl) > 0 {
			bad("prices include %s and no other tax applies, but total_with_tax %s != gross sum %s", includes, t.TotalWithTax.String(), gross.FloatString(int(c)))
		}
	}
	return errs
}
