package calcproto

import (
	"math/rand"
	"sort"
	"sync"

	"github.com/invopop/gobl/l10n"
	"github.com/invopop/gobl/tax"
)

// This file adds what the hand-written regime table of gen.go cannot know: it
// reads the tax regime registry of the tree under test at run time and derives
//
//   - for every registered regime its categories, the rate keys the regime
//     resolves (values or exempt) and the rate keys it merely NAMES (no values,
//     not exempt: the percentage is the issuer's), and the other country codes
//     the same definition is registered under;
//   - the tax countries no regime is registered for.
//
// Two families of rows are built from it (genRegimeFamilies, called by Gen), both about what
// distinguishes the rate groups of C02 and therefore every total of C01:
//
//   issuer-rate  rows of one category that carry the SAME rate key and
//                percentages of their own (equal on some rows, different on
//                others), the key being one no table overrides: a key without
//                values of the document's regime or of another regime named by
//                the combo, any key under a country without a regime, any key
//                in a document without a regime.  Groups are distinguished by
//                percentage, not by key.
//   alt-country  a combo repeated on another row with a country override: by
//                every other code the document's own regime is registered
//                under, by another regime, by a country without one; the same
//                category and rate stay present without the override.  Groups
//                are distinguished by country as written: only the tax country
//                of the document's regime itself is no override.

// regimeEntry is a row of gen.go's table with what the registry adds to it.
type regimeEntry struct {
	regimeInfo
	open  map[string][]string // rate keys defined without values and not exempt: the percentage is the issuer's
	alts  []string            // the other country codes the same regime is registered under
	loose bool                // no regime at all
}

type registryInfo struct {
	table   []regimeEntry // the hand table (enriched) followed by every other registered regime and one regime-less entry
	special []regimeEntry // the entries of table with alternative codes, issuer-rate keys or no regime
	byCode  map[string]int
	loose   []string // tax countries without a regime
	keyPool []string // every rate key some regime defines
}

var (
	regOnce sync.Once
	reg     registryInfo
)

func registry() *registryInfo {
	regOnce.Do(func() {
		reg.byCode = map[string]int{}
		hand := map[string]bool{}
		for _, h := range regimes {
			hand[h.country] = true
		}
		seenKey := map[string]bool{}
		derive := func(rd *tax.RegimeDef, base *regimeInfo) regimeEntry {
			ri := regimeEntry{regimeInfo: regimeInfo{country: string(rd.Country), keys: map[string][]string{}}, open: map[string][]string{}}
			if base != nil {
				ri.ordinary, ri.retained, ri.keys = base.ordinary, base.retained, base.keys
			}
			for _, a := range rd.AltCountryCodes {
				ri.alts = append(ri.alts, string(a))
			}
			for _, cd := range rd.Categories {
				if base == nil {
					if cd.Retained {
						ri.retained = append(ri.retained, string(cd.Code))
					} else {
						ri.ordinary = append(ri.ordinary, string(cd.Code))
					}
				}
				for _, rt := range cd.Rates {
					k := string(rt.Key)
					if !seenKey[k] {
						seenKey[k] = true
						reg.keyPool = append(reg.keyPool, k)
					}
					switch {
					case len(rt.Values) == 0 && !rt.Exempt:
						ri.open[string(cd.Code)] = append(ri.open[string(cd.Code)], k)
					case base == nil:
						ri.keys[string(cd.Code)] = append(ri.keys[string(cd.Code)], k)
					}
				}
			}
			return ri
		}
		for _, h := range regimes {
			h := h
			rd := tax.RegimeDefFor(l10n.Code(h.country))
			if rd == nil {
				reg.table = append(reg.table, regimeEntry{regimeInfo: h})
				continue
			}
			reg.table = append(reg.table, derive(rd, &h))
		}
		for _, rd := range tax.AllRegimeDefs() {
			if hand[string(rd.Country)] {
				continue
			}
			ri := derive(rd, nil)
			if len(ri.ordinary) == 0 {
				continue
			}
			reg.table = append(reg.table, ri)
		}
		sort.Strings(reg.keyPool)
		for _, cd := range l10n.Countries().Tax() {
			if tax.RegimeDefFor(cd.Code) == nil {
				reg.loose = append(reg.loose, string(cd.Code))
			}
		}
		sort.Strings(reg.loose)
		if len(reg.loose) > 0 && len(reg.keyPool) > 0 {
			// a document whose supplier's country has no regime: nothing is resolved, every key is the issuer's
			reg.table = append(reg.table, regimeEntry{regimeInfo: regimeInfo{country: reg.loose[len(reg.loose)/2], ordinary: []string{"VAT"}, keys: map[string][]string{}},
				open: map[string][]string{"VAT": reg.keyPool}, loose: true})
		}
		for i, ri := range reg.table {
			if len(ri.alts) > 0 || len(ri.open) > 0 || ri.loose {
				reg.special = append(reg.special, ri)
			}
			reg.byCode[ri.country] = i
			for _, a := range ri.alts {
				reg.byCode[a] = i
			}
		}
	})
	return &reg
}

// DocTaxCountry is the tax country of the regime a supplier country belongs to
// ("" without a regime): the one country code that is no override on a combo.
func DocTaxCountry(country string) string {
	if rd := tax.RegimeDefFor(l10n.Code(country)); rd != nil {
		return string(rd.Country)
	}
	return ""
}

// WrittenCountry is the country a combo keeps: the one the issuer wrote unless
// it is literally the tax country of the document's own regime.
func WrittenCountry(docCountry, comboCountry string) string {
	if comboCountry == DocTaxCountry(docCountry) {
		return ""
	}
	return comboCountry
}

// the rows of a document that carry tax combos, in the order of the calculation
func rowTaxes(d *Doc) []*[]Combo {
	var rs []*[]Combo
	for i := range d.Lines {
		rs = append(rs, &d.Lines[i].Taxes)
	}
	for i := range d.Discounts {
		rs = append(rs, &d.Discounts[i].Taxes)
	}
	for i := range d.Charges {
		rs = append(rs, &d.Charges[i].Taxes)
	}
	return rs
}

func plainLine(r *rand.Rand) Line {
	p := genAmt(r, 6, 4, 0.05)
	return Line{Qty: genAmt(r, 3, 2, 0.05), Item: &Item{Price: &p}}
}

// at least n rows: plain priced lines are added at random positions
func ensureRows(r *rand.Rand, d *Doc, n int) {
	for len(d.Lines)+len(d.Discounts)+len(d.Charges) < n {
		at := r.Intn(len(d.Lines) + 1)
		d.Lines = append(d.Lines, Line{})
		copy(d.Lines[at+1:], d.Lines[at:])
		d.Lines[at] = plainLine(r)
	}
}

// put the combo on a row, in place of whatever the row had for that category
func setCombo(ts *[]Combo, cb Combo) {
	var out []Combo
	done := false
	for _, x := range *ts {
		if x.Cat == cb.Cat {
			if !done {
				out = append(out, cb)
				done = true
			}
			continue
		}
		out = append(out, x)
	}
	if !done {
		out = append(out, cb)
	}
	*ts = out
}

func respelled(r *rand.Rand, a *Amt) *Amt {
	if a == nil {
		return nil
	}
	x := *a
	for k := r.Intn(3); k > 0 && x.E < 6; k-- {
		x = Amt{x.V * 10, x.E + 1}
	}
	return &x
}

type issuerSrc struct{ kind, country, cat, key string }

func issuerSources(r *rand.Rand, ri regimeEntry) []issuerSrc {
	g := registry()
	var out []issuerSrc
	own := "own-regime"
	if ri.loose {
		own = "no-regime-document"
	}
	for cat, ks := range ri.open {
		for _, k := range ks {
			out = append(out, issuerSrc{own, "", cat, k})
		}
	}
	sort.Slice(out, func(i, j int) bool { return out[i].cat+"|"+out[i].key < out[j].cat+"|"+out[j].key })
	if ri.loose && len(out) > 0 {
		out = []issuerSrc{out[r.Intn(len(out))]}
	}
	for _, o := range g.table {
		if o.country == ri.country || o.loose {
			continue
		}
		var cats []string
		for cat := range o.open {
			cats = append(cats, cat)
		}
		sort.Strings(cats)
		for _, cat := range cats {
			for _, k := range o.open[cat] {
				out = append(out, issuerSrc{"other-regime", o.country, cat, k})
			}
		}
	}
	if len(g.loose) > 0 && len(g.keyPool) > 0 {
		lc := pick(r, g.loose)
		if lc != ri.country {
			out = append(out, issuerSrc{"no-regime-country", lc, "VAT", pick(r, g.keyPool)})
		}
	}
	return out
}

func genIssuerRate(r *rand.Rand, d *Doc, ri regimeEntry) {
	srcs := issuerSources(r, ri)
	if len(srcs) == 0 {
		return
	}
	s := srcs[r.Intn(len(srcs))]
	// the document's own keys first when it has some: they are the rarer chance
	if srcs[0].country == "" && r.Intn(3) != 0 {
		n := 0
		for n < len(srcs) && srcs[n].country == "" {
			n++
		}
		s = srcs[r.Intn(n)]
	}
	n := 2 + r.Intn(2)
	ensureRows(r, d, n)
	rows := rowTaxes(d)
	perm := r.Perm(len(rows))[:n]
	sort.Ints(perm)
	p0 := genPct(r)
	var s0 *Amt
	if r.Intn(8) == 0 {
		x := pick(r, surChoices)
		s0 = &x
	}
	for j, ix := range perm {
		cb := Combo{Cat: s.cat, Country: s.country, Key: s.key, Percent: respelled(r, p0), Surcharge: respelled(r, s0)}
		if j > 0 {
			if r.Intn(4) == 0 {
				cb.Percent, cb.Surcharge = respelled(r, p0), respelled(r, s0) // same value: same group, whatever the spelling
			} else {
				cb.Percent = genPct(r)
				if s0 != nil && r.Intn(2) == 0 {
					cb.Surcharge = nil // same key, same percentage perhaps, no surcharge: a group of its own
				}
			}
		}
		setCombo(rows[ix], cb)
	}
	if r.Intn(3) == 0 {
		// the same percentage given without any key, same country: one group by value
		ensureRows(r, d, n+1)
		rows = rowTaxes(d)
		ix := r.Intn(len(rows))
		free := true
		for _, cb := range *rows[ix] {
			if cb.Cat == s.cat && cb.Key == s.key && cb.Country == s.country {
				free = false
			}
		}
		if free {
			setCombo(rows[ix], Combo{Cat: s.cat, Country: s.country, Percent: respelled(r, p0), Surcharge: respelled(r, s0)})
		}
	}
}

func genAltCountry(r *rand.Rand, d *Doc, ri regimeEntry) {
	g := registry()
	ensureRows(r, d, 2)
	rows := rowTaxes(d)
	// a combo of an ordinary category to repeat (made when the rows have none)
	type at struct{ row, i int }
	var have []at
	for ri_, ts := range rows {
		for i, cb := range *ts {
			if cb.Country == "" && (cb.Percent != nil || cb.Key != "") && cb.Ext == nil {
				for _, oc := range ri.ordinary {
					if oc == cb.Cat {
						have = append(have, at{ri_, i})
					}
				}
			}
		}
	}
	var src Combo
	var from int
	if len(have) == 0 {
		from = r.Intn(len(rows))
		src = Combo{Cat: ri.ordinary[0], Percent: genPct(r)}
		if ks := ri.keys[src.Cat]; len(ks) > 0 && r.Intn(2) == 0 {
			src = Combo{Cat: src.Cat, Key: pick(r, ks)}
		}
		setCombo(rows[from], src)
	} else {
		h := have[r.Intn(len(have))]
		from, src = h.row, (*rows[h.row])[h.i]
	}
	kind, code := "", ""
	switch x := r.Intn(6); {
	case len(ri.alts) > 0 && x < 4:
		kind, code = "alt-code", pick(r, ri.alts)
	case x == 5 && len(g.loose) > 0:
		kind, code = "no-regime-country", pick(r, g.loose)
	default:
		// another regime that defines the category
		var cands []string
		for _, o := range g.table {
			if o.loose || g.byCode[o.country] == g.byCode[ri.country] {
				continue
			}
			for _, oc := range append(append([]string{}, o.ordinary...), o.retained...) {
				if oc == src.Cat {
					cands = append(cands, o.country)
					cands = append(cands, o.alts...)
				}
			}
		}
		if len(cands) == 0 {
			if len(g.loose) == 0 {
				return
			}
			kind, code = "no-regime-country", pick(r, g.loose)
		} else {
			kind, code = "other-regime", pick(r, cands)
		}
	}
	if code == DocTaxCountry(d.Country) {
		return
	}
	cp := src
	cp.Country = code
	if kind != "alt-code" && cp.Key != "" {
		// the key would be read from another table (or from none): keep the figures comparable
		cp.Key = ""
		if cp.Percent == nil {
			cp.Percent = genPct(r)
		}
	}
	cp.Percent, cp.Surcharge = respelled(r, cp.Percent), respelled(r, cp.Surcharge)
	k := 1 + r.Intn(2)
	for _, ix := range r.Perm(len(rows)) {
		if ix == from {
			continue
		}
		setCombo(rows[ix], cp)
		if k--; k == 0 {
			break
		}
	}
}

// genRegimeFamilies rewrites the tax combos of a few rows of a generated
// document (adding plain lines when there are not enough rows) with the two
// families described at the top of this file.  ri is the regime entry the
// document was generated for.
func genRegimeFamilies(r *rand.Rand, d *Doc, ri regimeEntry) {
	pIssuer, pAlt := 14, 14
	if len(ri.open) > 0 {
		pIssuer = 2
	}
	if len(ri.alts) > 0 {
		pAlt = 2
	}
	if r.Intn(pIssuer) == 0 {
		genIssuerRate(r, d, ri)
	}
	if r.Intn(pAlt) == 0 {
		genAltCountry(r, d, ri)
	}
}

// Families classifies a document (generated or replayed) for the input
// distribution counters: rows of one category and country that share a rate
// key under different percentages, and country overrides by kind.
func Families(d *Doc) map[string]int {
	out := map[string]int{}
	g := registry()
	type kk struct{ cat, country, key string }
	pcs := map[kk]map[Amt]bool{}
	own := DocTaxCountry(d.Country)
	for _, ts := range rowTaxes(d) {
		for _, cb := range *ts {
			if cb.Key != "" && cb.Percent != nil {
				k := kk{cb.Cat, WrittenCountry(d.Country, cb.Country), cb.Key}
				if pcs[k] == nil {
					pcs[k] = map[Amt]bool{}
				}
				n := *cb.Percent
				for n.E > 0 && n.V%10 == 0 {
					n = Amt{n.V / 10, n.E - 1}
				}
				pcs[k][n] = true
			}
			switch {
			case cb.Country == "" || cb.Country == own:
			case tax.RegimeDefFor(l10n.Code(cb.Country)) == nil:
				out["country-override:no-regime-country"]++
			case own != "" && g.byCode[cb.Country] == g.byCode[own] && DocTaxCountry(cb.Country) == own:
				out["country-override:alt-code-of-own-regime"]++
			default:
				out["country-override:other-regime"]++
			}
		}
	}
	// one rate (category, written country, key, percentage, surcharge, extension content) under
	// more than one spelling of the same extension content (nothing.go)
	type rk struct {
		cat, country, key, ext string
		pct, sur               Amt
		hasP, hasS             bool
	}
	spellings := map[rk]map[string]bool{}
	zeroSur, zeroPct := map[rk]int{}, map[rk]int{}
	norm := func(a *Amt) (Amt, bool) {
		if a == nil {
			return Amt{}, false
		}
		n := *a
		for n.E > 0 && n.V%10 == 0 {
			n = Amt{n.V / 10, n.E - 1}
		}
		return n, true
	}
	for _, ts := range rowTaxes(d) {
		for _, cb := range *ts {
			if cb.ExtNone != "" {
				out["extensions-spelling:"+cb.ExtNone]++
			}
			k := rk{cat: cb.Cat, country: WrittenCountry(d.Country, cb.Country), key: cb.Key, ext: ExtText(combos([]Combo{{Cat: cb.Cat, Ext: cb.Ext}})[0].Ext)}
			k.pct, k.hasP = norm(cb.Percent)
			k.sur, k.hasS = norm(cb.Surcharge)
			if spellings[k] == nil {
				spellings[k] = map[string]bool{}
			}
			spellings[k][cb.ExtNone] = true
			if k.hasS && k.sur.V == 0 {
				zeroSur[k]++
			}
			if k.hasP && k.pct.V == 0 {
				zeroPct[k]++
			}
		}
	}
	for _, n := range zeroSur {
		if n > 1 {
			out["one-rate-with-surcharge-0%-on-several-rows"]++
		}
	}
	for _, n := range zeroPct {
		if n > 1 {
			out["one-rate-with-percentage-0%-on-several-rows"]++
		}
	}
	for _, m := range spellings {
		if len(m) > 1 {
			out["one-rate-under-several-spellings-of-its-extensions"]++
		}
	}
	for _, m := range pcs {
		if len(m) > 1 {
			out["rate-key-with-issuer-percentages:distinct>1"]++
		} else {
			out["rate-key-with-issuer-percentage:single"]++
		}
	}
	if own == "" {
		out["document-without-regime"]++
	} else if own != d.Country {
		out["document-under-alt-code"]++
	}
	return out
}
