package calcproto

import (
	"math/rand"
)

// GenOpts tunes the document generator.
type GenOpts struct {
	MaxLines     int
	ForceRule    string // "" = free
	CurrencyOnly bool   // fixed amounts at currency precision (C03's guard)
	NoForeign    bool
	NoBreakdown  bool
	NoRounding   bool
	ZeroRates    bool // the value zero of percentage and surcharge on several rows of one rate (zero.go)
}

var pctChoices = []Amt{{21, 2}, {10, 2}, {4, 2}, {0, 2}, {52, 3}, {725, 4}, {19, 2}, {5, 3}, {33333, 5}, {210, 3}, {15, 2}, {7, 2}, {24, 2}, {13, 2}, {6, 2}, {1, 2}, {175, 3}}
var surChoices = []Amt{{52, 3}, {14, 3}, {5, 3}, {175, 4}}

func pick[T any](r *rand.Rand, xs []T) T { return xs[r.Intn(len(xs))] }

// magnitude: log-uniform number of digits
func genVal(r *rand.Rand, maxDigits int) int64 {
	d := 1 + r.Intn(maxDigits)
	lim := int64(1)
	for i := 0; i < d; i++ {
		lim *= 10
	}
	return r.Int63n(lim)
}

func genAmt(r *rand.Rand, maxDigits int, maxExp int, neg float64) Amt {
	e := uint32(r.Intn(maxExp + 1))
	v := genVal(r, maxDigits)
	if r.Float64() < neg {
		v = -v
	}
	return Amt{v, e}
}

func genPct(r *rand.Rand) *Amt {
	p := pick(r, pctChoices)
	if r.Intn(12) == 0 {
		p = Amt{genVal(r, 4), uint32(2 + r.Intn(4))}
	}
	if r.Intn(25) == 0 {
		p.V = -p.V
	}
	return &p
}

type regimeInfo struct {
	country  string
	ordinary []string
	retained []string
	keys     map[string][]string
}

var regimes = []regimeInfo{
	{"ES", []string{"VAT", "IGIC", "IPSI"}, []string{"IRPF"}, map[string][]string{"VAT": {"standard", "reduced", "super-reduced", "zero", "exempt"}, "IGIC": {"standard", "reduced", "zero"}, "IRPF": {"pro", "pro-start"}}},
	{"EL", []string{"VAT"}, nil, map[string][]string{"VAT": {"standard", "reduced", "exempt"}}},
	{"PT", []string{"VAT"}, nil, map[string][]string{"VAT": {"standard", "reduced", "intermediate", "exempt"}}},
	{"IT", []string{"VAT"}, []string{"IRPEF", "INPS"}, map[string][]string{"VAT": {"standard", "reduced", "intermediate"}}},
	{"FR", []string{"VAT"}, nil, map[string][]string{"VAT": {"standard", "reduced", "intermediate"}}},
}

func genCombos(r *rand.Rand, ri regimeInfo, includes string) []Combo {
	var cs []Combo
	n := 0
	switch x := r.Intn(20); {
	case x < 2:
		n = 0
	case x < 13:
		n = 1
	case x < 18:
		n = 2
	default:
		n = 3
	}
	used := map[string]bool{}
	for i := 0; i < n; i++ {
		var cat string
		if i == 0 {
			cat = ri.ordinary[0]
			if includes != "" && r.Intn(10) < 8 {
				cat = includes
			} else if r.Intn(6) == 0 {
				cat = pick(r, ri.ordinary)
			}
		} else if len(ri.retained) > 0 && r.Intn(2) == 0 {
			cat = pick(r, ri.retained)
		} else {
			cat = pick(r, ri.ordinary)
		}
		if used[cat] && r.Intn(10) != 0 {
			continue
		}
		used[cat] = true
		c := Combo{Cat: cat}
		switch x := r.Intn(20); {
		case x < 13: // explicit percentage
			c.Percent = genPct(r)
			if r.Intn(8) == 0 {
				s := pick(r, surChoices)
				c.Surcharge = &s
			}
		case x < 17: // rate key, resolved by the regime
			if ks := ri.keys[cat]; len(ks) > 0 {
				c.Key = pick(r, ks)
			} else {
				c.Percent = genPct(r)
			}
		case x < 18: // exempt: no key, no percentage
		default: // other country with explicit percentage (VAT exists everywhere)
			c.Cat = "VAT"
			c.Country = pick(r, []string{"PT", "FR", "DE", "NL"})
			if c.Country == ri.country {
				c.Country = ""
			}
			c.Percent = genPct(r)
		}
		if r.Intn(15) == 0 && c.Key == "" {
			c.Ext = map[string]string{"es-tbai-product": pick(r, []string{"goods", "services"})}
		}
		cs = append(cs, c)
	}
	return cs
}

func genLineAdj(r *rand.Rand, o GenOpts, c uint32, charge bool) LineAdj {
	var a LineAdj
	switch x := r.Intn(10); {
	case x < 5:
		a.Percent = genPct(r)
		if r.Intn(4) == 0 {
			maxE := int(c) + 3
			if o.CurrencyOnly {
				maxE = int(c)
			}
			b := genAmt(r, 6, maxE, 0.1)
			a.Base = &b
		}
		if r.Intn(3) == 0 { // stale amount that must be overridden
			a.Amount = genAmt(r, 4, int(c), 0)
		}
	default:
		maxE := int(c) + 2
		if o.CurrencyOnly {
			maxE = int(c)
		}
		a.Amount = genAmt(r, 5, maxE, 0.1)
		if o.CurrencyOnly {
			a.Amount = Amt{a.Amount.V, c}
		}
		if a.Amount.V == 0 {
			a.Amount.V = 1
		}
	}
	if charge && r.Intn(5) == 0 {
		rt := genAmt(r, 4, int(c), 0.05)
		if o.CurrencyOnly {
			rt = Amt{rt.V, c}
		}
		a.Rate = &rt
		if r.Intn(2) == 0 {
			q := genAmt(r, 3, 0, 0.1)
			a.Quantity = &q
		}
	}
	return a
}

func genItem(r *rand.Rand, o GenOpts, cur string, d *Doc) *Item {
	maxE := 6
	p := genAmt(r, 7, maxE, 0.08)
	it := &Item{Price: &p}
	if r.Intn(40) == 0 {
		it.Price = nil
		return it
	}
	if !o.NoForeign && r.Intn(10) == 0 {
		foreign := pick(r, []string{"USD", "GBP", "JPY", "KWD"})
		if foreign != cur {
			it.Cur = foreign
			if r.Intn(3) == 0 {
				it.Alts = []Alt{{Cur: cur, Value: genAmt(r, 6, 4, 0.05)}}
			} else {
				has := false
				for _, x := range d.Rates {
					if x.From == foreign && x.To == cur {
						has = true
					}
				}
				if !has {
					d.Rates = append(d.Rates, XRate{From: foreign, To: cur, Amount: Amt{1 + genVal(r, 6), uint32(1 + r.Intn(5))}})
				}
			}
		}
	}
	return it
}

// Gen generates one document.
func Gen(r *rand.Rand, o GenOpts) *Doc {
	table := registry().table // the table above first, then every other registered regime, then "no regime"
	ri := table[0]
	switch x := r.Intn(20); {
	case x < 12:
	case x < 15:
		ri = table[1]
	case x < 18:
		ri = pick(r, table)
	default:
		ri = pick(r, registry().special) // regimes registered under several codes, regimes with keys left to the issuer, no regime
	}
	d := &Doc{Country: ri.country}
	if len(ri.alts) > 0 && r.Intn(3) == 0 {
		d.Country = pick(r, ri.alts) // a supplier under another code of the same regime
	}
	switch x := r.Intn(20); {
	case x < 14:
		d.Cur = "EUR"
	case x < 16:
		d.Cur = "JPY"
	case x < 18:
		d.Cur = "KWD"
	default:
		d.Cur = pick(r, []string{"USD", "GBP", "CLP", "BHD", "MXN"})
	}
	c := subunits(d.Cur, 2)
	switch x := r.Intn(8); {
	case x < 4:
	case x < 6:
		d.Rule = "precise"
	default:
		d.Rule = "currency"
	}
	if o.ForceRule != "" {
		d.Rule = o.ForceRule
	}
	if r.Intn(10) < 3 {
		d.Includes = ri.ordinary[0]
	} else if len(ri.retained) > 0 && r.Intn(150) == 0 {
		d.Includes = ri.retained[0] // refused: a retained category cannot be included
	}
	maxLines := o.MaxLines
	if maxLines == 0 {
		maxLines = 8
	}
	n := r.Intn(maxLines + 1)
	if n == 0 && r.Intn(4) != 0 {
		n = 1
	}
	for i := 0; i < n; i++ {
		l := Line{Qty: genAmt(r, 4, 3, 0.1)}
		if r.Intn(50) == 0 {
			l.Qty.V = 0
		}
		l.Item = genItem(r, o, d.Cur, d)
		if r.Intn(60) == 0 {
			l.Item = nil
		}
		for k := r.Intn(5) - 2; k > 0; k-- {
			l.Discounts = append(l.Discounts, genLineAdj(r, o, c, false))
		}
		for k := r.Intn(5) - 2; k > 0; k-- {
			l.Charges = append(l.Charges, genLineAdj(r, o, c, true))
		}
		if !o.NoBreakdown && l.Item != nil && r.Intn(6) == 0 {
			for k := 1 + r.Intn(3); k > 0; k-- {
				s := SubLine{Qty: genAmt(r, 3, 2, 0.05), Item: genItem(r, o, d.Cur, d)}
				if r.Intn(4) == 0 {
					s.Discounts = append(s.Discounts, genLineAdj(r, o, c, false))
				}
				if r.Intn(5) == 0 {
					s.Charges = append(s.Charges, genLineAdj(r, o, c, true))
				}
				l.Breakdown = append(l.Breakdown, s)
			}
			if r.Intn(2) == 0 {
				l.Item.Price = nil
			}
		}
		l.Taxes = genCombos(r, ri.regimeInfo, d.Includes)
		d.Lines = append(d.Lines, l)
	}
	genDocAdj := func() DocAdj {
		var a DocAdj
		if r.Intn(2) == 0 {
			a.Percent = genPct(r)
			if r.Intn(4) == 0 {
				maxE := int(c) + 3
				if o.CurrencyOnly {
					maxE = int(c)
				}
				b := genAmt(r, 6, maxE, 0.1)
				a.Base = &b
			}
		} else {
			maxE := int(c) + 2
			if o.CurrencyOnly {
				maxE = int(c)
			}
			a.Amount = genAmt(r, 5, maxE, 0.1)
			if o.CurrencyOnly {
				a.Amount = Amt{a.Amount.V, c}
			}
		}
		a.Taxes = genCombos(r, ri.regimeInfo, d.Includes)
		return a
	}
	for k := r.Intn(6) - 3; k > 0; k-- {
		d.Discounts = append(d.Discounts, genDocAdj())
	}
	for k := r.Intn(6) - 3; k > 0; k-- {
		d.Charges = append(d.Charges, genDocAdj())
	}
	// the same rate written twice with different spellings (21.0% / 21.00%, surcharge 5.2% / 5.20%):
	// one group by value, whatever the number of decimals — copied from one row to another one
	if len(d.Lines) >= 2 && r.Intn(5) == 0 {
		respell := func(a *Amt) *Amt {
			if a == nil {
				return nil
			}
			x := *a
			for k := 1 + r.Intn(2); k > 0 && x.E < 6; k-- {
				x = Amt{x.V * 10, x.E + 1}
			}
			return &x
		}
		from := r.Intn(len(d.Lines))
		to := (from + 1 + r.Intn(len(d.Lines)-1)) % len(d.Lines)
		for ci, cb := range d.Lines[from].Taxes {
			if cb.Percent == nil {
				continue
			}
			if cb.Surcharge == nil && r.Intn(2) == 0 {
				// on this very combo only: a surcharge next to no percentage is refused by
				// tax.Combo's validation ("required with percent") and, since exempt rows are
				// grouped whatever their surcharge, would make the group depend on row order
				// (false alarm of the background sweep, C17 thorough seed 31)
				s := pick(r, surChoices)
				cb.Surcharge = &s
				d.Lines[from].Taxes[ci].Surcharge = &s
			}
			cp := cb
			cp.Percent, cp.Surcharge = respell(cb.Percent), respell(cb.Surcharge)
			var ts []Combo
			for _, x := range d.Lines[to].Taxes {
				if x.Cat != cp.Cat {
					ts = append(ts, x)
				}
			}
			d.Lines[to].Taxes = append(ts, cp)
			break
		}
	}
	genRegimeFamilies(r, d, ri)
	genNothingSpellings(r, d)
	if o.ZeroRates && r.Intn(8) == 0 {
		genZeroRates(r, d, ri)
	}
	if !o.NoRounding && r.Intn(25) == 0 {
		maxE := int(c)
		if !o.CurrencyOnly && r.Intn(3) == 0 {
			maxE = int(c) + 2 // an externally supplied rounding finer than the currency: an input like any other
		}
		x := genAmt(r, 2, maxE, 0.5)
		if o.CurrencyOnly {
			x = Amt{x.V, c}
		}
		d.Rounding = &x
	}
	if r.Intn(5) < 2 {
		d.HasPayment = true
		for k := r.Intn(4) - 1; k > 0; k-- {
			var a Adv
			if r.Intn(2) == 0 {
				a.Percent = genPct(r)
				if r.Intn(3) == 0 {
					a.Amount = genAmt(r, 4, int(c), 0)
				}
			} else {
				maxE := int(c) + 2
				if o.CurrencyOnly {
					maxE = int(c)
				}
				a.Amount = genAmt(r, 5, maxE, 0.05)
				if o.CurrencyOnly {
					a.Amount = Amt{a.Amount.V, c}
				}
			}
			d.Advances = append(d.Advances, a)
		}
		if r.Intn(6) == 0 {
			// advances given as percentages that add up to exactly 100 %: each is rounded on its own,
			// so their presented sum need not be the payable amount and the due amount need not be zero
			d.Advances = nil
			splits := [][]Amt{{{1, 0}}, {{100, 2}}, {{50, 2}, {50, 2}}, {{5, 1}, {5, 1}}, {{3333, 4}, {3333, 4}, {3334, 4}},
				{{25, 2}, {75, 2}}, {{125, 3}, {875, 3}}, {{1, 2}, {99, 2}}}
			sp := splits[r.Intn(len(splits))]
			if r.Intn(3) == 0 {
				a := int64(1 + r.Intn(9999))
				sp = []Amt{{a, 4}, {10000 - a, 4}}
			}
			for _, p := range sp {
				q := p
				d.Advances = append(d.Advances, Adv{Percent: &q})
			}
		}
		for k := r.Intn(4) - 1; k > 0; k-- {
			var a Adv
			if r.Intn(3) != 0 {
				a.Percent = genPct(r)
			} else {
				a.Amount = genAmt(r, 5, int(c)+2, 0)
			}
			d.Dues = append(d.Dues, a)
		}
	}
	return d
}
