package calcproto

import "math/rand"

// The value zero.  C02 distinguishes rate groups "by country, percentage, surcharge and
// extensions" — by the VALUE of the percentage and of the surcharge — and quantifies over
// "explicit percentages … surcharges … zero and negative totals".  Zero is a value like any
// other: a percentage of 0 % is not "exempt" (no percentage), a surcharge of 0 % is not "no
// surcharge", and 0 %, 0.0 %, 0.00 % are one value.  This family puts ONE rate whose percentage
// and/or surcharge is zero on two to four rows (lines, document discounts and charges alike),
// every row with a spelling of its own (0–4 decimals), and — now and then — next to it the
// neighbouring rates that must stay apart: the same percentage without a surcharge, the same
// percentage with a surcharge that is not zero, the exempt combo.  The partition oracle
// (TaxSummaryOracle: as many groups as distinct (country, percent, surcharge, extensions |
// exempt) keys on the rows, every base the sum of its rows) judges the result.  GenOpts.ZeroRates
// switches it on (it consumes randomness, so the other users of Gen keep their streams).

var zeroSpellings = []Amt{{0, 2}, {0, 3}, {0, 4}, {0, 5}, {0, 6}} // 0%, 0.0%, 0.00%, 0.000%, 0.0000%

func zeroSpelled(r *rand.Rand) *Amt {
	z := zeroSpellings[r.Intn(len(zeroSpellings))]
	return &z
}

func genZeroRates(r *rand.Rand, d *Doc, ri regimeEntry) {
	n := 2 + r.Intn(3)
	ensureRows(r, d, n)
	rows := rowTaxes(d)
	cat := ri.ordinary[0]
	if len(ri.retained) > 0 && r.Intn(4) == 0 {
		cat = ri.retained[0]
	}
	if d.Includes != "" && r.Intn(2) == 0 {
		cat = d.Includes
	}
	kind := r.Intn(3) // 0: surcharge zero, 1: percentage zero, 2: both
	var p0 *Amt
	if kind != 1 {
		p0 = genPct(r)
		for p0.V == 0 && kind == 0 {
			p0 = genPct(r)
		}
	}
	var s0 *Amt
	if kind == 1 && r.Intn(2) == 0 {
		s := pick(r, surChoices)
		s0 = &s
	}
	mk := func() Combo {
		cb := Combo{Cat: cat}
		switch kind {
		case 0:
			cb.Percent, cb.Surcharge = respelled(r, p0), zeroSpelled(r)
		case 1:
			cb.Percent, cb.Surcharge = zeroSpelled(r), respelled(r, s0)
		default:
			cb.Percent, cb.Surcharge = zeroSpelled(r), zeroSpelled(r)
		}
		return cb
	}
	perm := r.Perm(len(rows))
	for k, ix := range perm {
		if k < n {
			setCombo(rows[ix], mk())
			continue
		}
		// the neighbours, on the rows that are left
		if r.Intn(3) != 0 {
			continue
		}
		nb := mk()
		switch r.Intn(3) {
		case 0:
			nb.Surcharge = nil
		case 1:
			s := pick(r, surChoices)
			nb.Surcharge = &s
		default:
			nb.Percent, nb.Surcharge = nil, nil
		}
		setCombo(rows[ix], nb)
	}
}
