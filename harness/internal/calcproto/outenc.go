package calcproto

import (
	"fmt"
	"strings"

	"github.com/invopop/gobl/bill"
	"github.com/invopop/gobl/num"
	"github.com/invopop/gobl/org"
)

// EncodeOut renders a CALCULATED invoice — nothing but the figures it presents —
// in the token format of lean/Driver/CalcOut.lean (`pOut`).  It is the input of
// the executable property oracles of the Lean side (Spec.C03.readdOk,
// Spec.C02.summaryOk) when they judge the output of the real code.
func EncodeOut(inv *bill.Invoice) string {
	var w []string
	amts := func(n int, at func(i int) num.Amount) {
		w = append(w, fmt.Sprint(n))
		for i := 0; i < n; i++ {
			w = append(w, na(at(i)))
		}
	}
	outItem := func(it *org.Item) {
		if it == nil {
			w = append(w, "N")
			return
		}
		w = append(w, "I", no(it.Price))
	}
	w = append(w, fmt.Sprint(len(inv.Lines)))
	for _, l := range inv.Lines {
		outItem(l.Item)
		w = append(w, no(l.Sum), no(l.Total))
		amts(len(l.Discounts), func(i int) num.Amount { return l.Discounts[i].Amount })
		amts(len(l.Charges), func(i int) num.Amount { return l.Charges[i].Amount })
		w = append(w, fmt.Sprint(len(l.Breakdown)))
		for _, s := range l.Breakdown {
			w = append(w, no(s.Sum), no(s.Total))
			amts(len(s.Discounts), func(i int) num.Amount { return s.Discounts[i].Amount })
			amts(len(s.Charges), func(i int) num.Amount { return s.Charges[i].Amount })
		}
	}
	amts(len(inv.Discounts), func(i int) num.Amount { return inv.Discounts[i].Amount })
	amts(len(inv.Charges), func(i int) num.Amount { return inv.Charges[i].Amount })
	if inv.Payment == nil {
		w = append(w, "0", "0")
	} else {
		w = append(w, fmt.Sprint(len(inv.Payment.Advances)))
		for _, a := range inv.Payment.Advances {
			w = append(w, np(a.Percent), na(a.Amount))
		}
		if inv.Payment.Terms == nil {
			w = append(w, "0")
		} else {
			w = append(w, fmt.Sprint(len(inv.Payment.Terms.DueDates)))
			for _, a := range inv.Payment.Terms.DueDates {
				w = append(w, np(a.Percent), na(a.Amount))
			}
		}
	}
	t := inv.Totals
	if t == nil {
		w = append(w, "-")
		return strings.Join(w, " ")
	}
	w = append(w, "T", na(t.Sum), no(t.Discount), no(t.Charge), no(t.TaxIncluded), na(t.Total), na(t.Tax), na(t.TotalWithTax),
		no(t.Rounding), na(t.Payable), no(t.Advances), no(t.Due))
	if t.Taxes == nil {
		w = append(w, "-")
		return strings.Join(w, " ")
	}
	w = append(w, "X", na(t.Taxes.Sum), fmt.Sprint(len(t.Taxes.Categories)))
	for _, ct := range t.Taxes.Categories {
		r := "0"
		if ct.Retained {
			r = "1"
		}
		w = append(w, hx(string(ct.Code)), r, na(ct.Amount), no(ct.Surcharge), fmt.Sprint(len(ct.Rates)))
		for _, rt := range ct.Rates {
			w = append(w, hx(string(rt.Key)), hx(string(rt.Country)), hx(ExtText(rt.Ext)), na(rt.Base), np(rt.Percent))
			if rt.Surcharge == nil {
				w = append(w, "-")
			} else {
				w = append(w, fmt.Sprintf("%d:%d", rt.Surcharge.Percent.Value(), rt.Surcharge.Percent.Exp()), na(rt.Surcharge.Amount))
			}
			w = append(w, na(rt.Amount))
		}
	}
	return strings.Join(w, " ")
}
