// Package calcproto is the harness-side mirror of lean/GoblVerif/Model/Calc.lean
// and lean/Driver/Calc.lean: a plain description of a billing document, its
// conversion into a real bill.Invoice, the token encoding understood by the
// Lean driver and the canonical text of a calculated result.
package calcproto

import (
	"fmt"
	"sort"
	"strings"

	_ "github.com/invopop/gobl" // registers regimes, addons and schemas
	"github.com/invopop/gobl/bill"
	"github.com/invopop/gobl/cal"
	"github.com/invopop/gobl/cbc"
	"github.com/invopop/gobl/currency"
	"github.com/invopop/gobl/l10n"
	"github.com/invopop/gobl/num"
	"github.com/invopop/gobl/org"
	"github.com/invopop/gobl/pay"
	"github.com/invopop/gobl/tax"
)

// Amt is an amount (value, exponent).
type Amt struct {
	V int64  `json:"v"`
	E uint32 `json:"e"`
}

// A makes an Amt.
func A(v int64, e uint32) Amt { return Amt{v, e} }

// Num converts to num.Amount.
func (a Amt) Num() num.Amount { return num.MakeAmount(a.V, a.E) }

// Pct converts to num.Percentage (a is the base amount, i.e. 0.21 for 21%).
func (a Amt) Pct() num.Percentage { return num.MakePercentage(a.V, a.E) }

func numPtr(a *Amt) *num.Amount {
	if a == nil {
		return nil
	}
	n := a.Num()
	return &n
}

func pctPtr(a *Amt) *num.Percentage {
	if a == nil {
		return nil
	}
	p := a.Pct()
	return &p
}

// Combo is an input tax combo.
type Combo struct {
	Cat       string            `json:"cat"`
	Country   string            `json:"country,omitempty"`
	Key       string            `json:"key,omitempty"`
	Percent   *Amt              `json:"percent,omitempty"`
	Surcharge *Amt              `json:"surcharge,omitempty"`
	Ext       map[string]string `json:"ext,omitempty"`
	// ExtNone: HOW "no extensions" is written when Ext is empty — the states the JSON reader
	// can leave in tax.Combo.Ext for a combo that carries no extension (see NoneSpellings).
	ExtNone string `json:"ext_none,omitempty"`
}

// NoneSpellings are the spellings of "no extensions" on a combo.  A JSON document can say it
// with the member absent or `"ext": null` (the reader leaves a nil map: ""), with `"ext": {}`
// (an empty map that is not nil: "empty") or with members whose value is the empty text,
// `"ext": {"k": ""}`, which normalisation drops ("blank": one such member, "blanks": two).
// All four say the same thing: the set of extensions, BY CONTENT, is empty.
var NoneSpellings = []string{"", "empty", "blank", "blanks"}

func noExtensions(form string) tax.Extensions {
	switch form {
	case "empty":
		return tax.Extensions{}
	case "blank":
		return tax.Extensions{"none": ""}
	case "blanks":
		return tax.Extensions{"none": "", "nothing-here": ""}
	}
	return nil
}

// LineAdj is a line discount or charge.
type LineAdj struct {
	Percent  *Amt `json:"percent,omitempty"`
	Base     *Amt `json:"base,omitempty"`
	Amount   Amt  `json:"amount"`
	Rate     *Amt `json:"rate,omitempty"`
	Quantity *Amt `json:"quantity,omitempty"`
}

// Alt is an alternative price.
type Alt struct {
	Cur   string `json:"cur"`
	Value Amt    `json:"value"`
}

// Item is a line item.
type Item struct {
	Price *Amt   `json:"price,omitempty"`
	Cur   string `json:"cur,omitempty"`
	Alts  []Alt  `json:"alts,omitempty"`
}

// SubLine is a breakdown row.
type SubLine struct {
	Qty       Amt       `json:"qty"`
	Item      *Item     `json:"item,omitempty"`
	Discounts []LineAdj `json:"discounts,omitempty"`
	Charges   []LineAdj `json:"charges,omitempty"`
}

// Line is a document line.
type Line struct {
	Qty       Amt       `json:"qty"`
	Item      *Item     `json:"item,omitempty"`
	Discounts []LineAdj `json:"discounts,omitempty"`
	Charges   []LineAdj `json:"charges,omitempty"`
	Breakdown []SubLine `json:"breakdown,omitempty"`
	Taxes     []Combo   `json:"taxes,omitempty"`
}

// DocAdj is a document discount or charge.
type DocAdj struct {
	Percent *Amt    `json:"percent,omitempty"`
	Base    *Amt    `json:"base,omitempty"`
	Amount  Amt     `json:"amount"`
	Taxes   []Combo `json:"taxes,omitempty"`
}

// XRate is an exchange rate.
type XRate struct {
	From   string `json:"from"`
	To     string `json:"to"`
	Amount Amt    `json:"amount"`
}

// Adv is an advance or a due date (percent or fixed amount).
type Adv struct {
	Percent *Amt `json:"percent,omitempty"`
	Amount  Amt  `json:"amount"`
}

// Doc describes an invoice for the calculation family of properties.
type Doc struct {
	Country    string   `json:"country"`  // supplier tax country = regime
	Cur        string   `json:"cur"`      // document currency
	Rule       string   `json:"rule"`     // "" = regime default
	Includes   string   `json:"includes"` // tax.prices_include
	Lines      []Line   `json:"lines"`
	Discounts  []DocAdj `json:"discounts,omitempty"`
	Charges    []DocAdj `json:"charges,omitempty"`
	Rates      []XRate  `json:"rates,omitempty"`
	Rounding   *Amt     `json:"rounding,omitempty"`
	HasPayment bool     `json:"has_payment"`
	Advances   []Adv    `json:"advances,omitempty"`
	Dues       []Adv    `json:"dues,omitempty"`
}

var supplierCodes = map[string]string{"ES": "B98602642", "EL": "728089281", "PT": "545259045", "FR": "44732829320", "DE": "111111125", "IT": "12345670785"}

func combos(cs []Combo) tax.Set {
	if len(cs) == 0 {
		return nil
	}
	s := make(tax.Set, len(cs))
	for i, c := range cs {
		tc := &tax.Combo{Category: cbc.Code(c.Cat), Country: l10n.TaxCountryCode(c.Country), Rate: cbc.Key(c.Key),
			Percent: pctPtr(c.Percent), Surcharge: pctPtr(c.Surcharge)}
		if len(c.Ext) > 0 {
			tc.Ext = tax.Extensions{}
			for k, v := range c.Ext {
				tc.Ext[cbc.Key(k)] = cbc.Code(v)
			}
			// blank members next to real ones: the content is the real ones
			for k, v := range noExtensions(c.ExtNone) {
				if _, has := tc.Ext[k]; !has {
					tc.Ext[k] = v
				}
			}
		} else {
			tc.Ext = noExtensions(c.ExtNone)
		}
		s[i] = tc
	}
	return s
}

// reasonFor: key, code and reason of a discount or charge are optional.  About a third of the rows
// that have an effect (a non-zero percentage, rate or fixed amount) carry none of them — chosen from
// the row's own figures, so that a replayed case builds the same document; rows without any effect
// always carry a reason, because a row with no member at all is legitimately dropped as empty.
func reasonFor(percent, rate *Amt, amount Amt) string {
	var h int64
	switch {
	case percent != nil && percent.V != 0:
		h = percent.V + int64(percent.E)
	case rate != nil && rate.V != 0:
		h = rate.V + int64(rate.E)
	case percent == nil && rate == nil && amount.V != 0:
		h = amount.V + int64(amount.E)
	default:
		return "r"
	}
	if h < 0 {
		h = -h
	}
	if h%3 == 0 {
		return ""
	}
	return "r"
}

func lineDiscounts(ds []LineAdj) []*bill.LineDiscount {
	var out []*bill.LineDiscount
	for _, d := range ds {
		out = append(out, &bill.LineDiscount{Reason: reasonFor(d.Percent, nil, d.Amount), Base: numPtr(d.Base), Percent: pctPtr(d.Percent), Amount: d.Amount.Num()})
	}
	return out
}

func lineCharges(ds []LineAdj) []*bill.LineCharge {
	var out []*bill.LineCharge
	for _, d := range ds {
		out = append(out, &bill.LineCharge{Reason: reasonFor(d.Percent, d.Rate, d.Amount), Base: numPtr(d.Base), Percent: pctPtr(d.Percent), Amount: d.Amount.Num(),
			Rate: numPtr(d.Rate), Quantity: numPtr(d.Quantity)})
	}
	return out
}

func item(it *Item) *org.Item {
	if it == nil {
		return nil
	}
	o := &org.Item{Name: "x", Price: numPtr(it.Price), Currency: currency.Code(it.Cur)}
	for _, a := range it.Alts {
		o.AltPrices = append(o.AltPrices, &currency.Amount{Currency: currency.Code(a.Cur), Value: a.Value.Num()})
	}
	return o
}

// Invoice builds the real document.
func (d *Doc) Invoice() *bill.Invoice {
	inv := &bill.Invoice{
		Code:      "1",
		Currency:  currency.Code(d.Cur),
		IssueDate: cal.MakeDate(2024, 3, 15),
		Supplier:  &org.Party{Name: "S", TaxID: &tax.Identity{Country: l10n.TaxCountryCode(d.Country), Code: cbc.Code(supplierCodes[d.Country])}},
		Customer:  &org.Party{Name: "C"},
	}
	if d.Rule != "" || d.Includes != "" {
		inv.Tax = &bill.Tax{Rounding: cbc.Key(d.Rule), PricesInclude: cbc.Code(d.Includes)}
	}
	for _, l := range d.Lines {
		bl := &bill.Line{Quantity: l.Qty.Num(), Item: item(l.Item), Discounts: lineDiscounts(l.Discounts),
			Charges: lineCharges(l.Charges), Taxes: combos(l.Taxes)}
		for _, s := range l.Breakdown {
			bl.Breakdown = append(bl.Breakdown, &bill.SubLine{Quantity: s.Qty.Num(), Item: item(s.Item),
				Discounts: lineDiscounts(s.Discounts), Charges: lineCharges(s.Charges)})
		}
		inv.Lines = append(inv.Lines, bl)
	}
	for _, x := range d.Discounts {
		inv.Discounts = append(inv.Discounts, &bill.Discount{Reason: reasonFor(x.Percent, nil, x.Amount), Base: numPtr(x.Base), Percent: pctPtr(x.Percent), Amount: x.Amount.Num(), Taxes: combos(x.Taxes)})
	}
	for _, x := range d.Charges {
		inv.Charges = append(inv.Charges, &bill.Charge{Reason: reasonFor(x.Percent, nil, x.Amount), Base: numPtr(x.Base), Percent: pctPtr(x.Percent), Amount: x.Amount.Num(), Taxes: combos(x.Taxes)})
	}
	for _, r := range d.Rates {
		inv.ExchangeRates = append(inv.ExchangeRates, &currency.ExchangeRate{From: currency.Code(r.From), To: currency.Code(r.To), Amount: r.Amount.Num()})
	}
	if d.Rounding != nil {
		inv.Totals = &bill.Totals{Rounding: numPtr(d.Rounding)}
	}
	if d.HasPayment {
		inv.Payment = &bill.PaymentDetails{}
		for _, a := range d.Advances {
			inv.Payment.Advances = append(inv.Payment.Advances, &pay.Advance{Description: "a", Percent: pctPtr(a.Percent), Amount: a.Amount.Num()})
		}
		if len(d.Dues) > 0 {
			inv.Payment.Terms = &pay.Terms{}
			for i, a := range d.Dues {
				inv.Payment.Terms.DueDates = append(inv.Payment.Terms.DueDates, &pay.DueDate{Date: cal.NewDate(2024, 4, time(i)), Percent: pctPtr(a.Percent), Amount: a.Amount.Num()})
			}
		}
	}
	return inv
}

func time(i int) int { return 1 + i%28 }

// ---- encoding for the Lean driver ----

func hx(s string) string {
	if s == "" {
		return "-"
	}
	return fmt.Sprintf("%x", s)
}

func ea(a Amt) string { return fmt.Sprintf("%d:%d", a.V, a.E) }
func eo(a *Amt) string {
	if a == nil {
		return "-"
	}
	return ea(*a)
}
func na(a num.Amount) string { return fmt.Sprintf("%d:%d", a.Value(), a.Exp()) }
func no(a *num.Amount) string {
	if a == nil {
		return "-"
	}
	return na(*a)
}
func np(p *num.Percentage) string {
	if p == nil {
		return "-"
	}
	return fmt.Sprintf("%d:%d", p.Value(), p.Exp())
}

// ExtText is the canonical text of an extension map.
func ExtText(e tax.Extensions) string {
	if len(e) == 0 {
		return ""
	}
	ks := make([]string, 0, len(e))
	for k := range e {
		ks = append(ks, string(k))
	}
	sort.Strings(ks)
	var sb strings.Builder
	for _, k := range ks {
		sb.WriteString(k + "=" + string(e[cbc.Key(k)]) + ";")
	}
	return sb.String()
}

// retainedOf reproduces what Combo.calculate learns from the regime.
func retainedOf(regimeCountry l10n.TaxCountryCode, c *tax.Combo) bool {
	country := regimeCountry
	if c.Country != "" {
		country = c.Country
	}
	r := tax.RegimeDefFor(country.Code())
	if r == nil {
		return false
	}
	cd := r.CategoryDef(c.Category)
	return cd != nil && cd.Retained
}

// The country of a prepared combo is the one the issuer WROTE on it (in: the
// combos of the description, index-aligned with the calculated ones), a literal
// repetition of the tax country of the document's own regime apart: groups are
// distinguished by country, so which rows count as "another country" is part of
// the statement and is not read back from the calculated document.  Category,
// rate key, percentages and extensions are read from the calculated combo
// (rate resolution is C12's subject).
func encCombos(w *[]string, regimeCountry l10n.TaxCountryCode, s tax.Set, in []Combo) {
	*w = append(*w, fmt.Sprint(len(s)))
	for i, c := range s {
		ret := "0"
		if retainedOf(regimeCountry, c) {
			ret = "1"
		}
		country := string(c.Country)
		if len(in) == len(s) {
			country = WrittenCountry(string(regimeCountry), in[i].Country)
		}
		*w = append(*w, hx(string(c.Category)), hx(country), hx(string(c.Rate)), np(c.Percent), np(c.Surcharge), hx(ExtText(c.Ext)), ret)
	}
}

func encAdjs(w *[]string, ds []LineAdj) {
	*w = append(*w, fmt.Sprint(len(ds)))
	for _, d := range ds {
		*w = append(*w, eo(d.Percent), eo(d.Base), ea(d.Amount), eo(d.Rate), eo(d.Quantity))
	}
}

func subunits(code string, def uint32) uint32 {
	if d := currency.Code(code).Def(); d != nil {
		return d.Subunits
	}
	return def
}

func encItem(w *[]string, it *Item, c uint32) {
	if it == nil {
		*w = append(*w, "N")
		return
	}
	sub := c
	if it.Cur != "" {
		sub = subunits(it.Cur, c)
	}
	*w = append(*w, "I", eo(it.Price), hx(it.Cur), fmt.Sprint(sub), fmt.Sprint(len(it.Alts)))
	for _, a := range it.Alts {
		*w = append(*w, hx(a.Cur), ea(a.Value))
	}
}

// Encode renders the request body (without the leading op) for the Lean
// driver.  The combos are taken from the *calculated* invoice (percentages
// resolved from rate keys, country normalised, rate extensions copied): rate
// resolution is the subject of C12, not of the calculation model.
func (d *Doc) Encode(calc *bill.Invoice) string {
	var w []string
	c := uint32(2)
	if def := calc.Currency.Def(); def != nil {
		c = def.Subunits
	}
	rule := d.Rule
	rc := l10n.TaxCountryCode(d.Country)
	if rule == "" {
		rule = string(tax.RegimeDefFor(rc.Code()).GetRoundingRule())
	}
	w = append(w, hx(string(calc.Currency)), fmt.Sprint(c), rule, hx(d.Includes))
	w = append(w, fmt.Sprint(len(d.Lines)))
	for i, l := range d.Lines {
		w = append(w, ea(l.Qty))
		encItem(&w, l.Item, c)
		encAdjs(&w, l.Discounts)
		encAdjs(&w, l.Charges)
		w = append(w, fmt.Sprint(len(l.Breakdown)))
		for _, s := range l.Breakdown {
			w = append(w, ea(s.Qty))
			encItem(&w, s.Item, c)
			encAdjs(&w, s.Discounts)
			encAdjs(&w, s.Charges)
		}
		encCombos(&w, rc, calc.Lines[i].Taxes, l.Taxes)
	}
	w = append(w, fmt.Sprint(len(d.Discounts)))
	for i, x := range d.Discounts {
		w = append(w, eo(x.Percent), eo(x.Base), ea(x.Amount))
		encCombos(&w, rc, calc.Discounts[i].Taxes, x.Taxes)
	}
	w = append(w, fmt.Sprint(len(d.Charges)))
	for i, x := range d.Charges {
		w = append(w, eo(x.Percent), eo(x.Base), ea(x.Amount))
		encCombos(&w, rc, calc.Charges[i].Taxes, x.Taxes)
	}
	w = append(w, fmt.Sprint(len(d.Rates)))
	for _, r := range d.Rates {
		w = append(w, hx(r.From), hx(r.To), fmt.Sprint(subunits(r.To, c)), ea(r.Amount))
	}
	w = append(w, eo(d.Rounding))
	if d.HasPayment {
		w = append(w, "1")
	} else {
		w = append(w, "0")
	}
	w = append(w, fmt.Sprint(len(d.Advances)))
	for _, a := range d.Advances {
		w = append(w, eo(a.Percent), ea(a.Amount))
	}
	w = append(w, fmt.Sprint(len(d.Dues)))
	for _, a := range d.Dues {
		w = append(w, eo(a.Percent), ea(a.Amount))
	}
	return strings.Join(w, " ")
}

// ---- canonical text of a calculated invoice (mirror of Driver.Calc.sOut) ----

func outAdjsD(w *[]string, ds []*bill.LineDiscount) {
	for _, d := range ds {
		*w = append(*w, "d", no(d.Base), na(d.Amount))
	}
}
func outAdjsC(w *[]string, ds []*bill.LineCharge) {
	for _, d := range ds {
		*w = append(*w, "c", no(d.Base), na(d.Amount))
	}
}
func outItem(w *[]string, it *org.Item) {
	if it == nil {
		*w = append(*w, "N")
		return
	}
	*w = append(*w, "I", hx(string(it.Currency)), no(it.Price), fmt.Sprint(len(it.AltPrices)))
}

// Output is the canonical result text of a calculated invoice.
func Output(inv *bill.Invoice) string {
	var w []string
	for _, l := range inv.Lines {
		w = append(w, "l")
		outItem(&w, l.Item)
		w = append(w, no(l.Sum), no(l.Total))
		outAdjsD(&w, l.Discounts)
		outAdjsC(&w, l.Charges)
		for _, s := range l.Breakdown {
			w = append(w, "s")
			outItem(&w, s.Item)
			w = append(w, no(s.Sum), no(s.Total))
			outAdjsD(&w, s.Discounts)
			outAdjsC(&w, s.Charges)
		}
	}
	for _, d := range inv.Discounts {
		w = append(w, "D", na(d.Amount))
	}
	for _, d := range inv.Charges {
		w = append(w, "C", na(d.Amount))
	}
	if inv.Payment != nil {
		for _, a := range inv.Payment.Advances {
			w = append(w, "A", na(a.Amount))
		}
		if inv.Payment.Terms != nil {
			for _, a := range inv.Payment.Terms.DueDates {
				w = append(w, "U", na(a.Amount))
			}
		}
	}
	t := inv.Totals
	if t == nil {
		w = append(w, "T", "none")
		return strings.Join(w, " ")
	}
	w = append(w, "T", na(t.Sum), no(t.Discount), no(t.Charge), no(t.TaxIncluded), na(t.Total), na(t.Tax), na(t.TotalWithTax),
		no(t.Rounding), na(t.Payable), no(t.Advances), no(t.Due))
	if t.Taxes == nil {
		w = append(w, "X", "none")
	} else {
		w = append(w, "X", na(t.Taxes.Sum))
		for _, ct := range t.Taxes.Categories {
			r := "0"
			if ct.Retained {
				r = "1"
			}
			w = append(w, "k", hx(string(ct.Code)), r, na(ct.Amount), no(ct.Surcharge))
			for _, rt := range ct.Rates {
				sc := "-"
				if rt.Surcharge != nil {
					sc = fmt.Sprintf("%d:%d/%s", rt.Surcharge.Percent.Value(), rt.Surcharge.Percent.Exp(), na(rt.Surcharge.Amount))
				}
				w = append(w, "r", hx(string(rt.Key)), hx(string(rt.Country)), hx(ExtText(rt.Ext)), na(rt.Base), np(rt.Percent), sc, na(rt.Amount))
			}
		}
	}
	return strings.Join(w, " ")
}
