package calcproto

import "encoding/json"

// EditDoc applies the input edit Edits[edit] to the *description* of a document
// (the same edit RecalcAfterEdit applies to the calculated invoice).  The
// edited description is what the calculation model is asked about, so that a
// recalculated document is only judged inside the model's stated domain
// (exact and float64 arithmetic agree): an edit can move a document out of it
// (dropping a large discount, say).  ok=false: the edit does not apply.
func EditDoc(d *Doc, edit int) (*Doc, bool) {
	b, err := json.Marshal(d)
	if err != nil {
		return nil, false
	}
	o := new(Doc)
	if err := json.Unmarshal(b, o); err != nil {
		return nil, false
	}
	switch Edits[edit].Name {
	case "drop-advances":
		if !o.HasPayment || len(o.Advances) == 0 {
			return nil, false
		}
		o.Advances = nil
	case "drop-payment":
		if !o.HasPayment {
			return nil, false
		}
		o.HasPayment, o.Advances, o.Dues = false, nil, nil
	case "drop-discounts":
		if len(o.Discounts) == 0 {
			return nil, false
		}
		o.Discounts = nil
	case "drop-charges":
		if len(o.Charges) == 0 {
			return nil, false
		}
		o.Charges = nil
	case "drop-prices-include":
		if o.Includes == "" {
			return nil, false
		}
		o.Includes = ""
	case "drop-all-taxes":
		for i := range o.Lines {
			o.Lines[i].Taxes = nil
		}
		for i := range o.Discounts {
			o.Discounts[i].Taxes = nil
		}
		for i := range o.Charges {
			o.Charges[i].Taxes = nil
		}
		o.Includes = ""
	case "drop-last-line":
		if len(o.Lines) < 2 {
			return nil, false
		}
		o.Lines = o.Lines[:len(o.Lines)-1]
	case "drop-line-adjustments":
		for i := range o.Lines {
			o.Lines[i].Discounts, o.Lines[i].Charges = nil, nil
		}
	case "drop-rounding":
		if o.Rounding == nil {
			return nil, false
		}
		o.Rounding = nil
	default:
		return nil, false
	}
	return o, true
}
