package calcproto

import (
	"bytes"
	"encoding/json"
	"fmt"
	"math/big"
	"math/rand"
	"strings"

	"github.com/invopop/gobl/bill"
	"github.com/invopop/gobl/currency"
	"github.com/invopop/gobl/num"
)

// The statements of C01 and C03 speak of every invoice, order or delivery that
// "calculates successfully" / "is calculated": Calculate is only one of the
// public operations that hand a caller such a document.  This file runs every
// OTHER public operation of bill.Invoice, bill.Order and bill.Delivery that
// returns or rewrites the amounts of a calculated document (ConvertInto, Invert,
// RemoveIncludedTaxes, Correct) and describes, for each, what a judge of those
// statements needs:
//
//   - the document the operation returned or rewrote (to be judged by the very
//     same oracles as a freshly calculated one),
//   - whether that document is a fixpoint of Calculate, both with its stored
//     figures and from its inputs alone (a presented figure that is not what the
//     calculation of the presented inputs gives is not "what exact arithmetic
//     over the supplied quantities, prices, … gives"),
//   - for an operation documented to return a NEW document: whether the
//     receiver, itself a calculated document that keeps being presented, is left
//     as it was — directly after the call, after the returned document has been
//     calculated again, and after the returned document has been edited and
//     calculated again (a row object shared by both shows only then),
//   - for ConvertInto: whether every converted input is the exact product with
//     the exchange rate rounded half away from zero once (the "exchange rates"
//     clause of C01).
//
// Nothing here knows how any of the operations is implemented.

// OpOutcome is what one operation did to one calculated document.
type OpOutcome struct {
	Op      string // e.g. "invoice.ConvertInto(USD)"
	Convert bool   // the operation returns a new document in another currency
	Skipped string // the operation refused (class of the error): nothing to judge
	Panic   string

	Result *bill.Invoice // the returned / rewritten document seen as an invoice (orders and deliveries have the same rows and totals)
	Sub    uint32        // decimals of the currency of Result

	Stale string // "" or: Result is not a fixpoint of Calculate

	// operations returning a new document only
	Receiver      *bill.Invoice // the receiver after everything below, seen as an invoice
	ReceiverSub   uint32
	ReceiverDiff  string // "" or the first difference between the receiver's JSON before and after
	ReceiverWhen  string // which step changed it
	ReceiverStale string // "" or: the receiver is no longer a fixpoint of Calculate

	Conv     string // "" or: a converted input is not the exactly rounded product
	ConvLine int    // line of that input (-1: a document row)
}

// OutgoingRates adds to a description one exchange rate from the document
// currency into each of n other currencies (rates with hidden digits: up to 6
// decimals, magnitudes from 0.0001 to 2000), which is all ConvertInto needs; a
// rate away from the document currency plays no part in Calculate.
func OutgoingRates(r *rand.Rand, d *Doc, n int) {
	curs := []string{"USD", "EUR", "GBP", "JPY", "KWD", "CLP", "MXN", "BHD"}
	r.Shuffle(len(curs), func(i, j int) { curs[i], curs[j] = curs[j], curs[i] })
	for _, to := range curs {
		if n == 0 {
			break
		}
		if to == d.Cur {
			continue
		}
		dup := false
		for _, x := range d.Rates {
			dup = dup || (x.From == d.Cur && x.To == to)
		}
		if dup {
			continue
		}
		var a Amt
		switch r.Intn(6) {
		case 0:
			a = Amt{10837, 4}
		case 1:
			a = Amt{1 + genVal(r, 3), 0} // 157 JPY for a EUR
		case 2:
			a = Amt{1 + genVal(r, 4), 6} // 0.006349
		default:
			a = Amt{1 + genVal(r, 6), uint32(1 + r.Intn(6))}
		}
		d.Rates = append(d.Rates, XRate{From: d.Cur, To: to, Amount: a})
		n--
	}
}

func marshal(v any) []byte {
	b, err := json.Marshal(v)
	if err != nil {
		return []byte("marshal error: " + err.Error())
	}
	return b
}

func firstDiff(a, b []byte) string {
	i := 0
	for i < len(a) && i < len(b) && a[i] == b[i] {
		i++
	}
	lo := max(0, i-70)
	return fmt.Sprintf("…%s… / …%s…", a[lo:min(len(a), i+50)], b[lo:min(len(b), i+50)])
}

// billDoc is what the three document types have in common for this file.
type billDoc interface {
	Calculate() error
}

func subOf(cur currency.Code) uint32 {
	if def := cur.Def(); def != nil {
		return def.Subunits
	}
	return 2
}

// views
func orderView(o *bill.Order) *bill.Invoice {
	if o == nil {
		return nil
	}
	return &bill.Invoice{Currency: o.Currency, Tax: o.Tax, Lines: o.Lines, Discounts: o.Discounts, Charges: o.Charges,
		Payment: o.Payment, Totals: o.Totals, ExchangeRates: o.ExchangeRates}
}

func deliveryView(o *bill.Delivery) *bill.Invoice {
	if o == nil {
		return nil
	}
	return &bill.Invoice{Currency: o.Currency, Tax: o.Tax, Lines: o.Lines, Discounts: o.Discounts, Charges: o.Charges,
		Totals: o.Totals, ExchangeRates: o.ExchangeRates}
}

// asOrder / asDelivery: the same rows as an order and as a delivery (built from a
// re-read copy, so nothing is shared with the invoice).
func asOrder(inv *bill.Invoice) *bill.Order {
	c, err := cloneInvoice(inv)
	if err != nil {
		return nil
	}
	return &bill.Order{Code: c.Code, Currency: c.Currency, IssueDate: c.IssueDate, Supplier: c.Supplier, Customer: c.Customer,
		Tax: c.Tax, Lines: c.Lines, Discounts: c.Discounts, Charges: c.Charges, ExchangeRates: c.ExchangeRates,
		Payment: c.Payment, Totals: c.Totals}
}

func asDelivery(inv *bill.Invoice) *bill.Delivery {
	c, err := cloneInvoice(inv)
	if err != nil {
		return nil
	}
	return &bill.Delivery{Code: c.Code, Currency: c.Currency, IssueDate: c.IssueDate, Supplier: c.Supplier, Customer: c.Customer,
		Tax: c.Tax, Lines: c.Lines, Discounts: c.Discounts, Charges: c.Charges, ExchangeRates: c.ExchangeRates,
		Totals: c.Totals}
}

// reread gives a copy of a document that went through its JSON text.
func reread[T any](doc *T) *T {
	out := new(T)
	if err := json.Unmarshal(marshal(doc), out); err != nil {
		return nil
	}
	return out
}

func totalsOf(doc any) **bill.Totals {
	switch x := doc.(type) {
	case *bill.Invoice:
		return &x.Totals
	case *bill.Order:
		return &x.Totals
	case *bill.Delivery:
		return &x.Totals
	}
	return nil
}

// fixpoint: a calculated document calculated again presents the same text, with
// its stored figures and from its inputs alone (the externally supplied rounding
// is the only input among the totals).
func fixpoint[T any](doc *T) string {
	want := marshal(doc)
	for _, fromInputs := range []bool{false, true} {
		c := reread(doc)
		if c == nil {
			return "the document does not read back from its own JSON"
		}
		if fromInputs {
			if tp := totalsOf(any(c)); tp != nil && *tp != nil {
				*tp = &bill.Totals{Rounding: (*tp).Rounding}
			}
		}
		var err error
		if pan := Protect(func() { err = any(c).(billDoc).Calculate() }); pan != "" {
			return "calculating it again panics: " + pan
		}
		if err != nil {
			return "calculating it again fails: " + err.Error()
		}
		if got := marshal(c); !bytes.Equal(got, want) {
			how := "with its stored figures"
			if fromInputs {
				how = "from its inputs alone"
			}
			return "calculated again " + how + " it presents other figures: " + firstDiff(want, got)
		}
	}
	return ""
}

// Protect runs f and returns the text of a panic ("" = none).
func Protect(f func()) (pan string) {
	defer func() {
		if r := recover(); r != nil {
			pan = fmt.Sprint(r)
		}
	}()
	f()
	return ""
}

func errClassOf(err error) string {
	s := err.Error()
	switch {
	case strings.Contains(s, "no exchange rate"):
		return "no-exchange-rate"
	case strings.Contains(s, "totals do not match"):
		return "inverted-totals-do-not-match"
	case strings.Contains(s, "cannot include retained"):
		return "retained-included"
	}
	if len(s) > 40 {
		s = s[:40]
	}
	return "error: " + s
}

// convertOutcome runs ConvertInto on a calculated receiver of any of the three
// types.
func convertOutcome[T any](kind string, recv *T, to currency.Code, view func(*T) *bill.Invoice,
	convert func(*T, currency.Code) (*T, error), editRng *rand.Rand) OpOutcome {
	o := OpOutcome{Op: fmt.Sprintf("%s.ConvertInto(%s)", kind, to), Convert: true, Sub: subOf(to)}
	var err error
	if pan := Protect(func() { err = any(recv).(billDoc).Calculate() }); pan != "" || err != nil {
		o.Skipped = "receiver does not calculate"
		return o
	}
	before := marshal(recv)
	// ConvertInto calculates its receiver first: a receiver that is not a fixpoint of Calculate to begin
	// with (a fixed amount rounded in place — the subject of C04) says nothing about the conversion
	if pan := Protect(func() { err = any(recv).(billDoc).Calculate() }); pan != "" || err != nil || !bytes.Equal(before, marshal(recv)) {
		o.Skipped = "receiver is not a fixpoint of Calculate beforehand (C04)"
		return o
	}
	beforeDoc := reread(recv) // the inputs of the conversion as they were presented before the call
	var res *T
	if pan := Protect(func() { res, err = convert(recv, to) }); pan != "" {
		o.Panic = pan
		return o
	}
	if err != nil {
		o.Skipped = errClassOf(err)
		return o
	}
	if res == nil || res == recv {
		o.Skipped = "same document returned"
		return o
	}
	o.Result = view(reread(res)) // what the caller is handed, before anything below touches it
	if beforeDoc != nil && conversionOutsideDomain(view(beforeDoc), o.Result, to) {
		// a product with the rate, or a figure of the converted document, beyond 2^52 units: the float
		// detour of num.Amount is no longer exact there and int64 can overflow (C05's domain)
		return OpOutcome{Op: o.Op, Convert: true, Skipped: "outside the 2^52 domain"}
	}
	o.Stale = fixpoint(res)
	if beforeDoc != nil {
		o.Conv, o.ConvLine = conversionExact(view(beforeDoc), o.Result, to)
	}
	o.ReceiverSub = subOf(view(recv).Currency)
	changed := func(when string) bool {
		if after := marshal(recv); !bytes.Equal(before, after) {
			o.ReceiverDiff, o.ReceiverWhen = firstDiff(before, after), when
			return true
		}
		return false
	}
	done := changed("directly after the call")
	if !done {
		// the caller calculates the returned document again
		_ = Protect(func() { _ = any(res).(billDoc).Calculate() })
		done = changed("after the returned document was calculated again")
	}
	if !done {
		// … and edits it: every amount it can reach through the returned document is the
		// returned document's own
		scribble(view(res), editRng)
		_ = Protect(func() { _ = any(res).(billDoc).Calculate() })
		changed("after the rows of the returned document were edited and it was calculated again")
	}
	o.Receiver = view(reread(recv))
	o.ReceiverStale = fixpoint(recv)
	return o
}

// scribble edits, through the document handed to it, every amount expressed in
// the document currency — exactly what a conversion has to make anew: prices,
// line sums and totals, row amounts, bases and charge rates, advances, due-date
// amounts, the totals.  (Quantities, percentages, tax combos, alternative prices,
// parties, tax settings and exchange rates are the same in both currencies;
// whether a conversion shares those with the receiver is not judged.)
func scribble(inv *bill.Invoice, r *rand.Rand) {
	bump := func(a num.Amount) num.Amount { return a.Add(num.MakeAmount(int64(1+r.Intn(97)), a.Exp())) }
	// a fresh value behind the pointer: amounts are values, nobody writes through a *num.Amount
	bumpP := func(pp **num.Amount) {
		if *pp != nil {
			v := bump(**pp)
			*pp = &v
		}
	}
	for _, l := range inv.Lines {
		if l == nil {
			continue
		}
		if l.Item != nil {
			bumpP(&l.Item.Price)
		}
		bumpP(&l.Sum)
		bumpP(&l.Total)
		for _, d := range l.Discounts {
			d.Amount = bump(d.Amount)
			bumpP(&d.Base)
		}
		for _, d := range l.Charges {
			d.Amount = bump(d.Amount)
			bumpP(&d.Base)
			bumpP(&d.Rate)
		}
		for _, s := range l.Breakdown {
			if s.Item != nil {
				bumpP(&s.Item.Price)
			}
			for _, d := range s.Discounts {
				d.Amount = bump(d.Amount)
			}
			for _, d := range s.Charges {
				d.Amount = bump(d.Amount)
			}
		}
	}
	for _, d := range inv.Discounts {
		d.Amount = bump(d.Amount)
		bumpP(&d.Base)
	}
	for _, d := range inv.Charges {
		d.Amount = bump(d.Amount)
		bumpP(&d.Base)
	}
	if inv.Payment != nil {
		for _, a := range inv.Payment.Advances {
			a.Amount = bump(a.Amount)
		}
		if inv.Payment.Terms != nil {
			for _, dd := range inv.Payment.Terms.DueDates {
				dd.Amount = bump(dd.Amount)
			}
		}
	}
	if t := inv.Totals; t != nil {
		t.Sum, t.Total, t.Payable = bump(t.Sum), bump(t.Total), bump(t.Payable)
		bumpP(&t.Rounding)
		bumpP(&t.Due)
	}
}

// conversionExact: every amount ConvertInto carries over — unit prices of lines
// without an alternative price in the target currency, fixed line and document
// discount and charge amounts, fixed advances — is, in the returned document,
// the exact product with the exchange rate, rounded half away from zero once at
// the precision it is presented with.  Percentage rows are recomputed from their
// percentage and are not inputs.  Judged inside the 2^52 domain of the float
// detour of num.Amount only (beyond it: "").
func conversionExact(before, after *bill.Invoice, to currency.Code) (string, int) {
	ex := currency.MatchExchangeRate(before.ExchangeRates, before.Currency, to)
	if ex == nil || after == nil {
		return "", -1
	}
	rate := rat(ex.Amount)
	lim := new(big.Int).Lsh(big.NewInt(1), 52)
	inDomain := func(a num.Amount, e uint32) bool {
		v := new(big.Int).Mul(big.NewInt(a.Value()), big.NewInt(ex.Amount.Value()))
		if e > a.Exp() {
			v.Mul(v, new(big.Int).Exp(big.NewInt(10), big.NewInt(int64(e-a.Exp())), nil))
		}
		return v.Abs(v).Cmp(lim) < 0
	}
	// conversions are made at two decimals more than the source carries (bill's documented
	// defaultCurrencyConversionAccuracy): got must be round(src × rate, src decimals + 2), written with
	// at least that many decimals; a figure presented coarser than that went through a presentation
	// rounding on top and is left to the other oracles
	check := func(what string, src, got num.Amount) string {
		e := src.Exp() + 2
		if got.Exp() < e || !inDomain(src, got.Exp()) {
			return ""
		}
		want := roundHalfAway(new(big.Rat).Mul(rat(src), rate), e)
		want.Mul(want, new(big.Int).Exp(big.NewInt(10), big.NewInt(int64(got.Exp()-e)), nil))
		if want.Cmp(big.NewInt(got.Value())) != 0 {
			return fmt.Sprintf("%s: %s × rate %s presented as %s, the exact product rounded once at %d decimals is %s e-%d",
				what, src.String(), ex.Amount.String(), got.String(), e, want.String(), got.Exp())
		}
		return ""
	}
	fixed := func(p *num.Percentage) bool { return p == nil || p.IsZero() }
	if len(before.Lines) != len(after.Lines) {
		return fmt.Sprintf("%d lines became %d", len(before.Lines), len(after.Lines)), -1
	}
	for i, l := range before.Lines {
		m := after.Lines[i]
		if l.Item == nil || l.Item.Price == nil || m.Item == nil || m.Item.Price == nil || len(l.Breakdown) > 0 {
			continue
		}
		alt := false
		for _, ap := range l.Item.AltPrices {
			alt = alt || ap.Currency == to
		}
		if !alt {
			if s := check(fmt.Sprintf("line %d price", i), *l.Item.Price, *m.Item.Price); s != "" {
				return s, i
			}
		}
	}
	for i, d := range before.Discounts {
		if i < len(after.Discounts) && fixed(d.Percent) && after.Discounts[i].Amount.Exp() > d.Amount.Exp() {
			if s := check(fmt.Sprintf("discount %d amount", i), d.Amount, after.Discounts[i].Amount); s != "" {
				return s, -1
			}
		}
	}
	for i, d := range before.Charges {
		if i < len(after.Charges) && fixed(d.Percent) && after.Charges[i].Amount.Exp() > d.Amount.Exp() {
			if s := check(fmt.Sprintf("charge %d amount", i), d.Amount, after.Charges[i].Amount); s != "" {
				return s, -1
			}
		}
	}
	return "", -1
}

// inPlaceOutcome runs an operation that rewrites the invoice it is called on.
func inPlaceOutcome(name string, inv *bill.Invoice, op func(*bill.Invoice) error) OpOutcome {
	o := OpOutcome{Op: name}
	c, err := cloneInvoice(inv)
	if err != nil {
		o.Skipped = "does not read back"
		return o
	}
	if pan := Protect(func() { err = op(c) }); pan != "" {
		o.Panic = pan
		return o
	}
	if err != nil {
		o.Skipped = errClassOf(err)
		return o
	}
	if c.Totals == nil {
		o.Skipped = "no totals afterwards"
		return o
	}
	o.Sub = subOf(c.Currency)
	o.Result = reread(c)
	o.Stale = fixpoint(c)
	return o
}

// RunOps applies every such operation to the document described by d.  The
// conversions are those the description carries an exchange rate for (from the
// document currency), so a replayed description replays them.
func RunOps(d *Doc, editRng *rand.Rand) []OpOutcome {
	var out []OpOutcome
	base := d.Invoice()
	var err error
	if pan := Protect(func() { err = base.Calculate() }); pan != "" || err != nil {
		return nil
	}
	seen := map[string]bool{}
	for _, x := range d.Rates {
		if x.From != d.Cur || x.To == d.Cur || seen[x.To] {
			continue
		}
		seen[x.To] = true
		to := currency.Code(x.To)
		out = append(out, convertOutcome("invoice", d.Invoice(), to, func(v *bill.Invoice) *bill.Invoice { return v },
			func(v *bill.Invoice, c currency.Code) (*bill.Invoice, error) { return v.ConvertInto(c) }, editRng))
		if ord := asOrder(d.Invoice()); ord != nil {
			out = append(out, convertOutcome("order", ord, to, orderView,
				func(v *bill.Order, c currency.Code) (*bill.Order, error) { return v.ConvertInto(c) }, editRng))
		}
		if dlv := asDelivery(d.Invoice()); dlv != nil {
			out = append(out, convertOutcome("delivery", dlv, to, deliveryView,
				func(v *bill.Delivery, c currency.Code) (*bill.Delivery, error) { return v.ConvertInto(c) }, editRng))
		}
	}
	out = append(out, inPlaceOutcome("invoice.Invert()", base, func(v *bill.Invoice) error { return v.Invert() }))
	if base.Tax != nil && base.Tax.PricesInclude != "" {
		out = append(out, inPlaceOutcome("invoice.RemoveIncludedTaxes()", base, func(v *bill.Invoice) error { return v.RemoveIncludedTaxes() }))
	}
	out = append(out, inPlaceOutcome("invoice.Correct(credit)", base, func(v *bill.Invoice) error { return v.Correct(bill.Credit) }))
	return out
}

// GenOps generates a description for the operations family: a document of the
// ordinary generator that also carries one to three exchange rates out of its
// currency, more often than usual an externally supplied rounding, and, on some
// priced lines, alternative prices in other currencies (the target among them
// or not).
func GenOps(r *rand.Rand, o GenOpts) *Doc {
	d := Gen(r, o)
	OutgoingRates(r, d, 1+r.Intn(3))
	c := subunits(d.Cur, 2)
	if d.Rounding == nil && !o.NoRounding && r.Intn(3) == 0 {
		x := Amt{int64(r.Intn(199) - 99), c}
		d.Rounding = &x
	}
	others := []string{"USD", "EUR", "GBP", "JPY", "KWD"}
	for i := range d.Lines {
		it := d.Lines[i].Item
		if it == nil || it.Price == nil || it.Cur != "" || len(it.Alts) > 0 || r.Intn(6) != 0 {
			continue
		}
		for _, k := range r.Perm(len(others))[:1+r.Intn(3)] {
			if others[k] != d.Cur {
				it.Alts = append(it.Alts, Alt{Cur: others[k], Value: genAmt(r, 6, 4, 0.05)})
			}
		}
	}
	return d
}

// OutsidePaymentDomain: a percentage advance or due date whose product with the
// total it is taken of lies beyond 2^52 units (the float detour of
// Percentage.Of is exact only below; C05's domain).  For generated descriptions
// the model decides the domain; the documents an operation hands back are judged
// here, like OutsideExactDomain does for their tax rows.
func OutsidePaymentDomain(inv *bill.Invoice) bool {
	if inv.Totals == nil || inv.Payment == nil {
		return false
	}
	lim := new(big.Int).Lsh(big.NewInt(1), 52)
	over := func(a num.Amount, p *num.Percentage) bool {
		if p == nil {
			return false
		}
		v := new(big.Int).Mul(big.NewInt(a.Value()), big.NewInt(p.Base().Value()))
		return v.Abs(v).Cmp(lim) >= 0
	}
	for _, a := range inv.Payment.Advances {
		if over(inv.Totals.TotalWithTax, a.Percent) || over(inv.Totals.Payable, a.Percent) {
			return true
		}
	}
	if inv.Payment.Terms != nil {
		for _, dd := range inv.Payment.Terms.DueDates {
			if over(inv.Totals.Payable, dd.Percent) || over(inv.Totals.TotalWithTax, dd.Percent) {
				return true
			}
		}
	}
	return false
}

// conversionOutsideDomain: some amount of money of the receiver times the rate
// at two extra decimals, or some figure the converted document presents (or a
// price × quantity product behind it), lies beyond 2^52 units.
func conversionOutsideDomain(before, after *bill.Invoice, to currency.Code) bool {
	lim := new(big.Int).Lsh(big.NewInt(1), 52)
	big2 := func(a, b int64) bool {
		v := new(big.Int).Mul(big.NewInt(a), big.NewInt(b))
		return v.Abs(v).Cmp(lim) >= 0
	}
	if ex := currency.MatchExchangeRate(before.ExchangeRates, before.Currency, to); ex != nil {
		over := func(a num.Amount) bool {
			v := new(big.Int).Mul(big.NewInt(a.Value()), big.NewInt(ex.Amount.Value()))
			v.Mul(v, big.NewInt(100))
			return v.Abs(v).Cmp(lim) >= 0
		}
		overP := func(a *num.Amount) bool { return a != nil && over(*a) }
		for _, l := range before.Lines {
			if l.Item != nil && overP(l.Item.Price) {
				return true
			}
			for _, d := range l.Discounts {
				if over(d.Amount) {
					return true
				}
			}
			for _, d := range l.Charges {
				if over(d.Amount) {
					return true
				}
			}
		}
		for _, d := range before.Discounts {
			if over(d.Amount) {
				return true
			}
		}
		for _, d := range before.Charges {
			if over(d.Amount) {
				return true
			}
		}
		if before.Payment != nil {
			for _, a := range before.Payment.Advances {
				if over(a.Amount) {
					return true
				}
			}
		}
	}
	if after == nil {
		return false
	}
	huge := func(a *num.Amount) bool { return a != nil && big2(a.Value(), 1) }
	for _, l := range after.Lines {
		if huge(l.Sum) || huge(l.Total) {
			return true
		}
		if l.Item != nil && l.Item.Price != nil {
			// the sum is price (raised to at least the currency's decimals + 2) × quantity
			p := l.Item.Price.RescaleUp(subOf(to) + 2)
			if big2(p.Value(), l.Quantity.Value()) {
				return true
			}
		}
		for _, s := range l.Breakdown {
			if huge(s.Sum) || huge(s.Total) {
				return true
			}
			if s.Item != nil && s.Item.Price != nil && big2(s.Item.Price.RescaleUp(subOf(to)+2).Value(), s.Quantity.Value()) {
				return true
			}
		}
	}
	if t := after.Totals; t != nil {
		if huge(&t.Sum) || huge(&t.Total) || huge(&t.TotalWithTax) || huge(&t.Payable) || huge(&t.Tax) || huge(t.Discount) || huge(t.Charge) {
			return true
		}
	}
	return false
}
