package conc

import (
	"encoding/json"
	"fmt"
	"go/ast"
	"go/parser"
	"go/token"
	"os"
	"path/filepath"
	"sort"
	"strconv"
	"strings"
)

// repoRoot is remembered by LoadExamples so that the synthesised part of the workload can read
// the sources of the current tree.
var repoRoot string

// migrationKeys reads, from the sources of regimes/<cc>, every key that a package-level table whose
// name mentions a migration maps to something else (`Key: A.With(B)` / `Key: A` / a literal): the
// old spellings of rate keys and the like that the regime rewrites when a document is loaded.
// Constants are resolved inside the package.  The result is sorted.
func migrationKeys(repo, cc string) []string {
	dir := filepath.Join(repo, "regimes", cc)
	fset := token.NewFileSet()
	pkgs, err := parser.ParseDir(fset, dir, func(fi os.FileInfo) bool { return !strings.HasSuffix(fi.Name(), "_test.go") }, 0)
	if err != nil {
		return nil
	}
	consts := map[string]string{}
	var tables []*ast.CompositeLit
	for _, p := range pkgs {
		for _, f := range p.Files {
			for _, d := range f.Decls {
				gd, ok := d.(*ast.GenDecl)
				if !ok {
					continue
				}
				for _, sp := range gd.Specs {
					vs, ok := sp.(*ast.ValueSpec)
					if !ok {
						continue
					}
					for i, n := range vs.Names {
						if i >= len(vs.Values) {
							continue
						}
						if bl, ok := vs.Values[i].(*ast.BasicLit); ok && bl.Kind == token.STRING && gd.Tok == token.CONST {
							if s, err := strconv.Unquote(bl.Value); err == nil {
								consts[n.Name] = s
							}
						}
						if cl, ok := vs.Values[i].(*ast.CompositeLit); ok && gd.Tok == token.VAR && strings.Contains(strings.ToLower(n.Name), "migration") {
							tables = append(tables, cl)
						}
					}
				}
			}
		}
	}
	var eval func(e ast.Expr) (string, bool)
	eval = func(e ast.Expr) (string, bool) {
		switch x := e.(type) {
		case *ast.BasicLit:
			if x.Kind == token.STRING {
				s, err := strconv.Unquote(x.Value)
				return s, err == nil
			}
		case *ast.Ident:
			s, ok := consts[x.Name]
			return s, ok
		case *ast.SelectorExpr: // tax.RateExempt and friends: the constant's own spelling is not known here
			return "", false
		case *ast.CallExpr:
			if se, ok := x.Fun.(*ast.SelectorExpr); ok && se.Sel.Name == "With" && len(x.Args) >= 1 {
				a, ok := eval(se.X)
				if !ok {
					return "", false
				}
				for _, arg := range x.Args {
					b, ok := eval(arg)
					if !ok {
						return "", false
					}
					a += "+" + b
				}
				return a, true
			}
		}
		return "", false
	}
	seen := map[string]bool{}
	for _, t := range tables {
		for _, el := range t.Elts {
			row, ok := el.(*ast.CompositeLit)
			if !ok {
				continue
			}
			for _, fe := range row.Elts {
				kv, ok := fe.(*ast.KeyValueExpr)
				if !ok {
					continue
				}
				if id, ok := kv.Key.(*ast.Ident); ok && id.Name == "Key" {
					if s, ok := eval(kv.Value); ok && s != "" {
						seen[s] = true
					}
				}
			}
		}
	}
	out := make([]string, 0, len(seen))
	for s := range seen {
		out = append(out, s)
	}
	sort.Strings(out)
	return out
}

// legacyDocs gives, for every regime that carries migration tables, its smallest example invoice with
// the rate key of the first line tax replaced by each old spelling (two copies of each, so that two
// documents take the same table row).
func legacyDocs(repo string, best map[string]Doc) []Doc {
	var out []Doc
	ccs := make([]string, 0, len(best))
	for cc := range best {
		ccs = append(ccs, cc)
	}
	sort.Strings(ccs)
	for _, cc := range ccs {
		keys := migrationKeys(repo, cc)
		for _, k := range keys {
			for copyNo := 1; copyNo <= 2; copyNo++ {
				dm, rebuild := docMap(best[cc].Data)
				if dm == nil {
					continue
				}
				lines, _ := dm["lines"].([]any)
				if len(lines) == 0 {
					continue
				}
				l0, _ := lines[0].(map[string]any)
				taxes, _ := l0["taxes"].([]any)
				if len(taxes) == 0 {
					continue
				}
				t0, _ := taxes[0].(map[string]any)
				if t0 == nil {
					continue
				}
				delete(t0, "percent")
				delete(t0, "ext")
				t0["rate"] = k
				b := rebuild()
				if !json.Valid(b) {
					continue
				}
				out = append(out, Doc{Name: fmt.Sprintf("x/%s~legacy-key:%s#%d", best[cc].Name, k, copyNo), Data: b})
			}
		}
	}
	return out
}
