package conc

import (
	"reflect"

	"github.com/invopop/gobl/num"
)

var (
	pctType = reflect.TypeOf(num.Percentage{})
	amtType = reflect.TypeOf(num.Amount{})
)

// Scribble writes into everything mutable that is reachable from v: a poison
// entry is added to every map with string-like keys and values, and the first
// element of every slice of string-like values is overwritten.  The pipeline
// calls it on the documents it created itself, after their transcript was
// taken: legitimate for the owner of that data — and visible in the frozen
// registries (or in another document's result) exactly when a document shares a
// map or slice with a registered definition or with another document.
func Scribble(v any) {
	seen := map[uintptr]bool{}
	scribble(reflect.ValueOf(v), seen, 0)
}

func stringLike(t reflect.Type) bool { return t.Kind() == reflect.String }

func scribble(v reflect.Value, seen map[uintptr]bool, depth int) {
	if depth > 40 || !v.IsValid() {
		return
	}
	switch v.Kind() {
	case reflect.Pointer:
		if v.IsNil() || seen[v.Pointer()] {
			return
		}
		seen[v.Pointer()] = true
		// a number the document holds by pointer (percentages, surcharges, optional amounts) is
		// overwritten through the pointer: what it points to belongs to the document
		switch v.Type().Elem() {
		case pctType:
			if v.Elem().CanSet() {
				v.Elem().Set(reflect.ValueOf(num.MakePercentage(98765, 5)))
			}
			return
		case amtType:
			if v.Elem().CanSet() {
				v.Elem().Set(reflect.ValueOf(num.MakeAmount(-987654321, 4)))
			}
			return
		}
		scribble(v.Elem(), seen, depth+1)
	case reflect.Interface:
		if !v.IsNil() {
			scribble(v.Elem(), seen, depth+1)
		}
	case reflect.Struct:
		if !own(v.Type()) {
			return
		}
		for i := 0; i < v.NumField(); i++ {
			if v.Type().Field(i).IsExported() {
				scribble(v.Field(i), seen, depth+1)
			}
		}
	case reflect.Map:
		if v.IsNil() {
			return
		}
		for _, k := range v.MapKeys() {
			scribble(v.MapIndex(k), seen, depth+1)
		}
		if stringLike(v.Type().Key()) && stringLike(v.Type().Elem()) {
			v.SetMapIndex(reflect.ValueOf("zz-scribble").Convert(v.Type().Key()), reflect.ValueOf("scribbled").Convert(v.Type().Elem()))
		}
	case reflect.Slice:
		if v.IsNil() {
			return
		}
		for i := 0; i < v.Len(); i++ {
			scribble(v.Index(i), seen, depth+1)
		}
		if v.Len() > 0 && stringLike(v.Type().Elem()) && v.Index(0).CanSet() {
			v.Index(0).Set(reflect.ValueOf("zz-scribble").Convert(v.Type().Elem()))
		}
	}
}
