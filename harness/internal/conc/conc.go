// Package conc is the concurrent workload shared by the C15 harness
// (in-process result equivalence, frozen-registry hash) and the race-detector
// binary cmd/racework: a corpus of documents of every regime x addon
// combination and a deterministic pipeline over one document whose transcript
// (canonicalised outputs and errors of every stage) can be compared byte-wise
// between a sequential and a concurrent run.
package conc

import (
	"encoding/json"
	"fmt"
	"os"
	"path/filepath"
	"regexp"
	"runtime/debug"
	"sort"
	"strings"

	"github.com/invopop/gobl"
	"github.com/invopop/gobl/bill"
	"github.com/invopop/gobl/cal"
	"github.com/invopop/gobl/dsig"
	"github.com/invopop/gobl/schema"
	"github.com/invopop/gobl/tax"
	"github.com/invopop/yaml"

	"verifharness/internal/core"
)

// Doc is one input document (JSON text of an envelope or of a bare document).
type Doc struct {
	Name string
	Data []byte
}

// LoadExamples reads every example input (examples/<cc>/*.yaml|json) and
// every example output (examples/<cc>/out/*.json) as JSON text.
func LoadExamples(repo string) (inputs, outputs []Doc, err error) {
	repoRoot = repo
	root := filepath.Join(repo, "examples")
	err = filepath.Walk(root, func(p string, info os.FileInfo, e error) error {
		if e != nil || info.IsDir() {
			return e
		}
		ext := filepath.Ext(p)
		if ext != ".yaml" && ext != ".yml" && ext != ".json" {
			return nil
		}
		b, e := os.ReadFile(p)
		if e != nil {
			return e
		}
		rel, _ := filepath.Rel(root, p)
		if ext != ".json" {
			j, e := yaml.YAMLToJSON(b)
			if e != nil {
				return nil // not a document
			}
			b = j
		}
		if !json.Valid(b) {
			return nil
		}
		d := Doc{Name: rel, Data: b}
		if filepath.Base(filepath.Dir(p)) == "out" {
			outputs = append(outputs, d)
		} else {
			inputs = append(inputs, d)
		}
		return nil
	})
	sort.Slice(inputs, func(i, j int) bool { return inputs[i].Name < inputs[j].Name })
	sort.Slice(outputs, func(i, j int) bool { return outputs[i].Name < outputs[j].Name })
	return
}

// invoiceSchema is the schema ID of bill.Invoice.
const invoiceSchema = "https://gobl.org/draft-0/bill/invoice"

// docMap returns the document member map of an envelope-or-document JSON and
// a function that re-serialises the whole after edits.
func docMap(data []byte) (doc map[string]any, rebuild func() []byte) {
	var top map[string]any
	if json.Unmarshal(data, &top) != nil {
		return nil, nil
	}
	if d, ok := top["doc"].(map[string]any); ok {
		return d, func() []byte { b, _ := json.Marshal(top); return b }
	}
	return top, func() []byte { b, _ := json.Marshal(top); return b }
}

// IsInvoice reports whether the JSON text is (an envelope of) an invoice.
func IsInvoice(data []byte) bool {
	d, _ := docMap(data)
	if d == nil {
		return false
	}
	s, _ := d["$schema"].(string)
	return s == invoiceSchema
}

// CrossAddons synthesises, for the first (smallest) example invoice input of
// every regime, one variant per registered addon (the addon list replaced by
// that single addon) and one with every addon of that invoice's own country
// prefix plus the foreign one — the regime x addon sweep.
func CrossAddons(inputs []Doc) []Doc {
	best := map[string]Doc{}
	for _, d := range inputs {
		if !IsInvoice(d.Data) {
			continue
		}
		cc := strings.SplitN(d.Name, string(filepath.Separator), 2)[0]
		if b, ok := best[cc]; !ok || len(d.Data) < len(b.Data) {
			best[cc] = d
		}
	}
	var ccs []string
	for cc := range best {
		ccs = append(ccs, cc)
	}
	sort.Strings(ccs)
	var out []Doc
	// old spellings a regime rewrites when a document is loaded (migration tables in its sources)
	if repoRoot != "" {
		out = append(out, legacyDocs(repoRoot, best)...)
	}
	for _, cc := range ccs {
		base := best[cc]
		for _, ad := range tax.AllAddonDefs() {
			dm, rebuild := docMap(base.Data)
			if dm == nil {
				continue
			}
			dm["$addons"] = []any{string(ad.Key)}
			out = append(out, Doc{Name: fmt.Sprintf("x/%s+%s", base.Name, ad.Key), Data: rebuild()})
		}
		// ordered pairs of the addons of the invoice's own country: definitions of
		// several addons are merged in list order (corrections, tags, scenarios),
		// so a helper that writes into its argument shows only for some orders
		var own []string
		for _, ad := range tax.AllAddonDefs() {
			if strings.HasPrefix(string(ad.Key), cc+"-") {
				own = append(own, string(ad.Key))
			}
		}
		for _, a := range own {
			for _, b := range own {
				if a == b {
					continue
				}
				dm, rebuild := docMap(base.Data)
				if dm == nil {
					continue
				}
				dm["$addons"] = []any{a, b}
				out = append(out, Doc{Name: fmt.Sprintf("x/%s+%s+%s", base.Name, a, b), Data: rebuild()})
			}
		}
	}
	return out
}

var (
	reUUID7 = regexp.MustCompile(`[0-9a-f]{8}-[0-9a-f]{4}-7[0-9a-f]{3}-[89ab][0-9a-f]{3}-[0-9a-f]{12}`)
	reDig   = regexp.MustCompile(`"val": ?"[0-9a-f]{64}"`)
	reSig   = regexp.MustCompile(`"sigs": ?\[[^\]]*\]`)
)

// Canon removes what legitimately differs between two runs of the same
// operation: fresh (version 7, time based) UUIDs, digests that cover them,
// JWS signatures (ECDSA is randomised) and today's date.
func Canon(s string) string {
	s = reUUID7.ReplaceAllString(s, "UUID7")
	s = reDig.ReplaceAllString(s, `"val":"DIGEST"`)
	s = reSig.ReplaceAllString(s, `"sigs":["SIG"]`)
	s = strings.ReplaceAll(s, cal.Today().String(), "TODAY")
	return s
}

func errText(err error) string {
	if err == nil {
		return "ok"
	}
	b, e := json.Marshal(err)
	if e != nil || string(b) == "{}" {
		return "error: " + err.Error()
	}
	return "error: " + string(b)
}

// Key is the fixed signing key of the workload.
var Key = dsig.NewES256Key()

// Narrow parses one document and runs a single stage on it ("validate" or
// "calculate"); panics and errors are ignored (C14 / the full pipeline judge them).
func Narrow(d Doc, stage string) {
	defer func() { _ = recover() }()
	obj, err := gobl.Parse(d.Data)
	if err != nil {
		return
	}
	switch x := obj.(type) {
	case *gobl.Envelope:
		if x.Document == nil || x.Head == nil {
			return
		}
		if stage == "validate" {
			_ = x.Validate()
		} else {
			_ = x.Calculate()
		}
	default:
		if stage == "validate" {
			if v, ok := obj.(interface{ Validate() error }); ok {
				_ = v.Validate()
			}
		} else if c, ok := obj.(interface{ Calculate() error }); ok {
			_ = c.Calculate()
		}
	}
}

// Pipeline runs parse, calculate, validate, marshal, sign, verify, correct,
// replicate over one document and returns the canonical transcript.  It only
// touches data it created itself: any dependence of the transcript on what
// other goroutines do is a violation of C15.
func Pipeline(d Doc) (out string) {
	var sb strings.Builder
	defer func() {
		// a panic is a C14 matter; here it only has to be deterministic
		if r := recover(); r != nil {
			out = sb.String() + "PANIC at " + core.PanicSite(debug.Stack()) + "\n"
		}
	}()
	stage := func(name, res string) { sb.WriteString(name + ": " + Canon(res) + "\n") }
	obj, err := gobl.Parse(d.Data)
	if err != nil {
		stage("parse", errText(err))
		return sb.String()
	}
	var env *gobl.Envelope
	switch x := obj.(type) {
	case *gobl.Envelope:
		env = x
		if env.Document == nil || env.Head == nil {
			stage("parse", "envelope without doc/head")
			return sb.String()
		}
		err = env.Calculate()
	default:
		env, err = gobl.Envelop(obj)
	}
	stage("calculate", errText(err))
	if err != nil {
		return sb.String()
	}
	verr := env.Validate()
	stage("validate", errText(verr))
	b, err := json.Marshal(env)
	if err != nil {
		stage("marshal", errText(err))
		return sb.String()
	}
	stage("json", string(b))
	if verr == nil {
		env.Signatures = nil
		if err := env.Sign(Key); err != nil {
			stage("sign", errText(err))
		} else {
			stage("sign", "ok")
			stage("verify", errText(env.Verify(Key.Public())))
			// round trip of the signed envelope
			sb2, _ := json.Marshal(env)
			e2 := new(gobl.Envelope)
			if err := json.Unmarshal(sb2, e2); err != nil {
				stage("reparse", errText(err))
			} else {
				stage("reverify", errText(e2.Verify(Key.Public())))
			}
		}
	}
	if _, ok := env.Extract().(*bill.Invoice); ok {
		if cs, err := env.CorrectionOptionsSchema(); err != nil {
			stage("correction-options", errText(err))
		} else {
			cb, _ := json.Marshal(cs)
			stage("correction-options", string(cb))
		}
		for _, opt := range []struct {
			n string
			o schema.Option
		}{{"credit", bill.Credit}, {"debit", bill.Debit}, {"corrective", bill.Corrective}} {
			ce, err := env.Correct(opt.o, bill.WithReason("test"))
			if err != nil {
				stage("correct-"+opt.n, errText(err))
				continue
			}
			cb, _ := json.Marshal(ce)
			stage("correct-"+opt.n, string(cb))
		}
	}
	re, err := env.Replicate()
	if err != nil {
		stage("replicate", errText(err))
	} else {
		rb, _ := json.Marshal(re)
		stage("replicate", string(rb))
		Scribble(re.Extract())
	}
	// the transcript is complete: now write all over the documents this pipeline created; nothing
	// anybody else can see may change (frozen registries, other goroutines' transcripts)
	Scribble(env.Extract())
	return sb.String()
}
