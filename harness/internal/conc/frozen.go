package conc

import (
	"crypto/sha256"
	"encoding/hex"
	"fmt"
	"reflect"
	"sort"
	"strings"
	"unsafe"

	"github.com/invopop/gobl/bill"
	"github.com/invopop/gobl/currency"
	"github.com/invopop/gobl/org"
	"github.com/invopop/gobl/pay"
	"github.com/invopop/gobl/schema"
	"github.com/invopop/gobl/tax"
)

// Snapshot is a flat dump ("path = value" lines) of everything reachable
// from the shared registries, INCLUDING the hidden len..cap region of every
// slice: an append into spare capacity of a shared slice changes it.
type Snapshot struct {
	Lines  []string
	Digest string
	Slices int // slices seen
	Spare  int // slices with cap > len (where an in-place append would be invisible to len)
}

type walker struct {
	lines   []string
	seen    map[[2]uintptr]bool
	slices  int
	spare   int
	budget  int
	typeIDs map[reflect.Type]uintptr
}

const goblPkg = "github.com/invopop/gobl"

// Snap walks the registries.
func Snap() *Snapshot {
	w := &walker{seen: map[[2]uintptr]bool{}, budget: 20_000_000, typeIDs: map[reflect.Type]uintptr{}}
	roots := []struct {
		name string
		v    any
	}{
		{"tax.Regimes", tax.Regimes()},
		{"tax.AllRegimeDefs", tax.AllRegimeDefs()},
		{"tax.AllAddonDefs", tax.AllAddonDefs()},
		{"tax.AllCatalogueDefs", tax.AllCatalogueDefs()},
		{"tax.RoundingRules", &tax.RoundingRules},
		{"currency.Definitions", currency.Definitions()},
		{"schema.List", schema.List()},
		{"bill.InvoiceTypes", &bill.InvoiceTypes},
		{"bill.DeliveryTypes", &bill.DeliveryTypes},
		{"bill.OrderTypes", &bill.OrderTypes},
		{"bill.PaymentTypes", &bill.PaymentTypes},
		{"org.NoteKeyDefinitions", &org.NoteKeyDefinitions},
		{"org.UnitDefinitions", &org.UnitDefinitions},
		{"pay.TermKeyDefinitions", &pay.TermKeyDefinitions},
		{"pay.MeansKeyDefinitions", &pay.MeansKeyDefinitions},
	}
	for _, r := range roots {
		w.walk(reflect.ValueOf(r.v), r.name)
	}
	// schema registry: type -> id
	var ts []string
	for t, id := range schema.Types() {
		ts = append(ts, t.String()+" => "+string(id))
	}
	sort.Strings(ts)
	for _, l := range ts {
		w.lines = append(w.lines, "schema.Types: "+l)
	}
	// extension definitions by key, for every key mentioned anywhere above
	h := sha256.New()
	for _, l := range w.lines {
		h.Write([]byte(l))
		h.Write([]byte{'\n'})
	}
	return &Snapshot{Lines: w.lines, Digest: hex.EncodeToString(h.Sum(nil)), Slices: w.slices, Spare: w.spare}
}

// Diff lists the first lines that differ between two snapshots.
func (a *Snapshot) Diff(b *Snapshot, max int) []string {
	var out []string
	n := len(a.Lines)
	if len(b.Lines) != n {
		out = append(out, fmt.Sprintf("number of reachable leaves changed: %d -> %d", len(a.Lines), len(b.Lines)))
		if len(b.Lines) < n {
			n = len(b.Lines)
		}
	}
	for i := 0; i < n && len(out) < max; i++ {
		if a.Lines[i] != b.Lines[i] {
			out = append(out, "before: "+a.Lines[i]+"  |  after: "+b.Lines[i])
		}
	}
	return out
}

func (w *walker) emit(path, val string) {
	if len(val) > 200 {
		val = val[:200] + "…"
	}
	w.lines = append(w.lines, path+" = "+val)
}

func (w *walker) typeID(t reflect.Type) uintptr {
	id, ok := w.typeIDs[t]
	if !ok {
		id = uintptr(len(w.typeIDs) + 1)
		w.typeIDs[t] = id
	}
	return id
}

// own reports whether values of type t are walked structurally.
func own(t reflect.Type) bool {
	return t.PkgPath() == "" || strings.HasPrefix(t.PkgPath(), goblPkg)
}

// flat reports whether t is made of plain scalar kinds only (such foreign
// types, e.g. civil.Date, are walked structurally).
func flat(t reflect.Type) bool {
	switch t.Kind() {
	case reflect.Bool, reflect.Int, reflect.Int8, reflect.Int16, reflect.Int32, reflect.Int64,
		reflect.Uint, reflect.Uint8, reflect.Uint16, reflect.Uint32, reflect.Uint64, reflect.Float32, reflect.Float64, reflect.String:
		return true
	case reflect.Array:
		return flat(t.Elem())
	case reflect.Struct:
		for i := 0; i < t.NumField(); i++ {
			if !flat(t.Field(i).Type) {
				return false
			}
		}
		return true
	}
	return false
}

// writable strips the read-only flag of a value reached through an
// unexported field (needs an addressable value).
func writable(v reflect.Value) reflect.Value {
	if v.CanInterface() || !v.CanAddr() {
		return v
	}
	return reflect.NewAt(v.Type(), unsafe.Pointer(v.UnsafeAddr())).Elem()
}

// addressable returns an addressable copy of v when it is not addressable.
func addressable(v reflect.Value) reflect.Value {
	if v.CanAddr() {
		return v
	}
	t := reflect.New(v.Type()).Elem()
	if v.CanInterface() {
		t.Set(v)
	}
	return t
}

func (w *walker) walk(v reflect.Value, path string) {
	if w.budget <= 0 {
		return
	}
	w.budget--
	if !v.IsValid() {
		w.emit(path, "<invalid>")
		return
	}
	t := v.Type()
	if !own(t) && t.Kind() != reflect.Interface && !flat(t) {
		// foreign named type: opaque, except for its printable form
		w.opaque(v, path)
		return
	}
	switch v.Kind() {
	case reflect.Bool:
		w.emit(path, fmt.Sprint(v.Bool()))
	case reflect.Int, reflect.Int8, reflect.Int16, reflect.Int32, reflect.Int64:
		w.emit(path, fmt.Sprint(v.Int()))
	case reflect.Uint, reflect.Uint8, reflect.Uint16, reflect.Uint32, reflect.Uint64, reflect.Uintptr:
		w.emit(path, fmt.Sprint(v.Uint()))
	case reflect.Float32, reflect.Float64:
		w.emit(path, fmt.Sprint(v.Float()))
	case reflect.String:
		w.emit(path, fmt.Sprintf("%q", v.String()))
	case reflect.Func, reflect.Chan, reflect.UnsafePointer:
		if v.IsNil() {
			w.emit(path, "nil "+v.Kind().String())
		} else {
			w.emit(path, v.Kind().String())
		}
	case reflect.Ptr:
		if v.IsNil() {
			w.emit(path, "nil")
			return
		}
		key := [2]uintptr{v.Pointer(), w.typeID(t)}
		if w.seen[key] {
			w.emit(path, "-> (shared)")
			return
		}
		w.seen[key] = true
		w.walk(v.Elem(), path)
	case reflect.Interface:
		if v.IsNil() {
			w.emit(path, "nil")
			return
		}
		e := v.Elem()
		w.walk(addressable(e), path+"("+e.Type().String()+")")
	case reflect.Struct:
		v = addressable(v)
		for i := 0; i < v.NumField(); i++ {
			w.walk(writable(v.Field(i)), path+"."+t.Field(i).Name)
		}
	case reflect.Array:
		for i := 0; i < v.Len(); i++ {
			w.walk(writable(v.Index(i)), fmt.Sprintf("%s[%d]", path, i))
		}
	case reflect.Slice:
		if v.IsNil() {
			w.emit(path, "nil slice")
			return
		}
		w.slices++
		l, c := v.Len(), v.Cap()
		if c > l {
			w.spare++
		}
		w.emit(path, fmt.Sprintf("slice len=%d cap=%d", l, c))
		key := [2]uintptr{v.Pointer(), w.typeID(t)<<20 | uintptr(c)}
		if c > 0 && w.seen[key] {
			w.emit(path, "-> (shared backing array)")
			return
		}
		w.seen[key] = true
		full := v.Slice(0, c)
		if t.Elem().Kind() == reflect.Uint8 {
			w.emit(path+"[..]", fmt.Sprintf("%x", full.Bytes()))
			return
		}
		for i := 0; i < c; i++ {
			p := fmt.Sprintf("%s[%d]", path, i)
			if i >= l {
				p = fmt.Sprintf("%s[%d hidden]", path, i)
			}
			w.walk(writable(full.Index(i)), p)
		}
	case reflect.Map:
		if v.IsNil() {
			w.emit(path, "nil map")
			return
		}
		key := [2]uintptr{v.Pointer(), w.typeID(t)}
		if w.seen[key] {
			w.emit(path, "-> (shared map)")
			return
		}
		w.seen[key] = true
		type kv struct {
			k string
			v reflect.Value
		}
		var kvs []kv
		it := v.MapRange()
		for it.Next() {
			kvs = append(kvs, kv{fmt.Sprint(printable(it.Key())), it.Value()})
		}
		sort.Slice(kvs, func(i, j int) bool { return kvs[i].k < kvs[j].k })
		w.emit(path, fmt.Sprintf("map len=%d", len(kvs)))
		for _, e := range kvs {
			w.walk(addressable(e.v), fmt.Sprintf("%s[%q]", path, e.k))
		}
	default:
		w.emit(path, "<"+v.Kind().String()+">")
	}
}

func printable(v reflect.Value) any {
	switch v.Kind() {
	case reflect.String:
		return v.String()
	case reflect.Int, reflect.Int8, reflect.Int16, reflect.Int32, reflect.Int64:
		return v.Int()
	case reflect.Uint, reflect.Uint8, reflect.Uint16, reflect.Uint32, reflect.Uint64:
		return v.Uint()
	case reflect.Bool:
		return v.Bool()
	}
	if v.CanInterface() {
		return v.Interface()
	}
	return v.Type().String()
}

// opaque records a value of a type defined outside gobl without descending
// into its internals: kind-level content for plain kinds, String() for
// stringers (regexp, time, reflect.Type), otherwise only its type and nil-ness.
func (w *walker) opaque(v reflect.Value, path string) {
	t := v.Type()
	switch v.Kind() {
	case reflect.Bool, reflect.Int, reflect.Int8, reflect.Int16, reflect.Int32, reflect.Int64,
		reflect.Uint, reflect.Uint8, reflect.Uint16, reflect.Uint32, reflect.Uint64, reflect.Float32, reflect.Float64, reflect.String:
		w.emit(path, fmt.Sprintf("%v", printable(v)))
		return
	case reflect.Ptr, reflect.Map, reflect.Slice, reflect.Func, reflect.Chan:
		if v.IsNil() {
			w.emit(path, "nil "+t.String())
			return
		}
	}
	if v.CanInterface() {
		if s, ok := v.Interface().(fmt.Stringer); ok && (strings.HasPrefix(t.String(), "*regexp.") || strings.HasPrefix(t.String(), "time.") || strings.HasPrefix(t.String(), "*time.")) {
			w.emit(path, t.String()+":"+s.String())
			return
		}
	}
	w.emit(path, "<"+t.String()+">")
}

// Dump is the structural dump of an arbitrary value (same walk as Snap:
// unexported fields, pointer targets, hidden slice capacity), used to compare
// a source envelope before and after an operation.
func Dump(name string, v any) *Snapshot {
	w := &walker{seen: map[[2]uintptr]bool{}, budget: 5_000_000, typeIDs: map[reflect.Type]uintptr{}}
	w.walk(reflect.ValueOf(v), name)
	h := sha256.New()
	for _, l := range w.lines {
		h.Write([]byte(l))
		h.Write([]byte{'\n'})
	}
	return &Snapshot{Lines: w.lines, Digest: hex.EncodeToString(h.Sum(nil)), Slices: w.slices, Spare: w.spare}
}

// Scramble overwrites every settable leaf reachable from v (a pointer):
// strings get a suffix, numbers are incremented, bools flipped, map entries
// and slice elements (including hidden capacity) edited in place.  It is
// used on the RESULT of Correct / Replicate: if the source changes, result
// and source share memory.  Values of foreign types are left alone.
func Scramble(v any) int {
	s := &scrambler{seen: map[[2]uintptr]bool{}, typeIDs: map[reflect.Type]uintptr{}}
	s.walk(reflect.ValueOf(v))
	return s.n
}

type scrambler struct {
	seen    map[[2]uintptr]bool
	typeIDs map[reflect.Type]uintptr
	n       int
}

func (s *scrambler) tid(t reflect.Type) uintptr {
	id, ok := s.typeIDs[t]
	if !ok {
		id = uintptr(len(s.typeIDs) + 1)
		s.typeIDs[t] = id
	}
	return id
}

// shared definition types must never be edited (they live in the registries)
func registryType(t reflect.Type) bool {
	n := t.String()
	switch n {
	case "tax.RegimeDef", "tax.AddonDef", "tax.CatalogueDef", "cbc.Definition", "currency.Def", "tax.CategoryDef", "tax.RateDef",
		"tax.TagSet", "tax.ScenarioSet", "tax.Scenario", "tax.CorrectionDefinition":
		return true
	}
	return false
}

func (s *scrambler) walk(v reflect.Value) {
	if !v.IsValid() {
		return
	}
	t := v.Type()
	if registryType(t) {
		return
	}
	if !own(t) && t.Kind() != reflect.Interface && !flat(t) {
		return
	}
	switch v.Kind() {
	case reflect.Ptr:
		if v.IsNil() {
			return
		}
		k := [2]uintptr{v.Pointer(), s.tid(t)}
		if s.seen[k] {
			return
		}
		s.seen[k] = true
		s.walk(v.Elem())
	case reflect.Interface:
		if v.IsNil() {
			return
		}
		e := v.Elem()
		if e.Kind() == reflect.Ptr {
			s.walk(e)
		}
	case reflect.Struct:
		if !v.CanAddr() {
			return
		}
		for i := 0; i < v.NumField(); i++ {
			s.walk(writable(v.Field(i)))
		}
	case reflect.Array:
		for i := 0; i < v.Len(); i++ {
			s.walk(writable(v.Index(i)))
		}
	case reflect.Slice:
		if v.IsNil() {
			return
		}
		full := v.Slice(0, v.Cap())
		for i := 0; i < full.Len(); i++ {
			s.walk(writable(full.Index(i)))
		}
	case reflect.Map:
		if v.IsNil() {
			return
		}
		k := [2]uintptr{v.Pointer(), s.tid(t)}
		if s.seen[k] {
			return
		}
		s.seen[k] = true
		for _, key := range v.MapKeys() {
			val := v.MapIndex(key)
			if val.Kind() == reflect.Ptr || val.Kind() == reflect.Map || val.Kind() == reflect.Slice {
				s.walk(val)
				continue
			}
			nv := reflect.New(val.Type()).Elem()
			nv.Set(val)
			s.walk(nv)
			v.SetMapIndex(key, nv)
		}
		if t.Key().Kind() == reflect.String && t.Elem().Kind() == reflect.String {
			nk := reflect.New(t.Key()).Elem()
			nk.SetString("scrambled-key")
			nv := reflect.New(t.Elem()).Elem()
			nv.SetString("scrambled")
			v.SetMapIndex(nk, nv)
			s.n++
		}
	case reflect.String:
		if v.CanSet() {
			v.SetString(v.String() + "~mut")
			s.n++
		}
	case reflect.Bool:
		if v.CanSet() {
			v.SetBool(!v.Bool())
			s.n++
		}
	case reflect.Int, reflect.Int8, reflect.Int16, reflect.Int32, reflect.Int64:
		if v.CanSet() {
			v.SetInt(v.Int() + 1)
			s.n++
		}
	case reflect.Uint, reflect.Uint8, reflect.Uint16, reflect.Uint32, reflect.Uint64:
		if v.CanSet() {
			v.SetUint(v.Uint() + 1)
			s.n++
		}
	}
}
