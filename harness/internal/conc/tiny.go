package conc

// SMALL documents.  The corpus of conc.go is made of example documents of
// kilobytes; whatever the library does differently for an object of a dozen
// bytes (an append that still fits a buffer it kept, a pooled scratch slice, a
// fast path) is never reached by them.  Here stand-alone documents of one
// member are DERIVED FROM THE SCHEMA REGISTRY: for every registered schema ID
// whose Go type is a struct, for every top-level JSON member of that struct and
// a handful of short values (1-3 character strings, single digits, true), the
// text {"$schema":"<id>","<member>":<value>} is kept when it parses as a
// schema.Object and marshals again with the member in place.  Many documents of
// the SAME schema with DIFFERENT contents of the SAME length result.
//
// Two relations over every marshalling entry point (json.Marshal of the object,
// Object.MarshalJSON, schema.Insert, Object.Clone, json.Marshal of the envelope
// of the object, Envelope.Digest, Envelope.Calculate + head digest):
//
//	result stability (sequential)   every byte slice / string the API handed out is kept —
//	                                not copied — and compared again after all later calls:
//	                                a result is the caller's, nothing done afterwards for
//	                                another document may change it (C15: "each result is
//	                                identical to the one obtained sequentially" includes the
//	                                result a caller still holds);
//	goroutine = sequential          G goroutines write the documents of one schema at the same
//	                                time, each its own; every result is compared with the
//	                                sequential one at once and again after yielding.

import (
	"bytes"
	"encoding/json"
	"fmt"
	"reflect"
	"runtime"
	"sort"
	"strings"
	"sync"

	"github.com/invopop/gobl"
	"github.com/invopop/gobl/schema"
)

// Tiny is one derived small document.
type Tiny struct {
	Schema string `json:"schema"`
	Member string `json:"member"`
	Text   string `json:"text"`               // the stand-alone document
	Env    string `json:"envelope,omitempty"` // its envelope as JSON text ("" when gobl.Envelop rejects the document)
}

// TinyProblem is a violation found by one of the two relations, with the documents that show it.
type TinyProblem struct {
	Relation string `json:"relation"` // stability | concurrent | oracle
	Entry    string `json:"entry"`
	Schema   string `json:"schema"`
	What     string `json:"what"`
	Docs     []Tiny `json:"docs"`
	G        int    `json:"goroutines,omitempty"`
	Procs    int    `json:"procs,omitempty"`
}

var tinyValues = []string{`"a"`, `"b"`, `"c"`, `"Q"`, `"A1"`, `"B2"`, `"c3"`, `"abc"`, `"xyz"`, `"QRS"`, `"1"`, `"2"`, `1`, `2`, `7`, `true`}

func jsonMembers(t reflect.Type, into *[]string, depth int) {
	if depth > 3 {
		return
	}
	for t.Kind() == reflect.Pointer {
		t = t.Elem()
	}
	if t.Kind() != reflect.Struct {
		return
	}
	for i := 0; i < t.NumField(); i++ {
		f := t.Field(i)
		tag := f.Tag.Get("json")
		name := strings.Split(tag, ",")[0]
		if f.Anonymous && name == "" {
			jsonMembers(f.Type, into, depth+1)
			continue
		}
		if !f.IsExported() || name == "-" {
			continue
		}
		if name == "" {
			name = f.Name
		}
		if name == "$schema" {
			continue
		}
		*into = append(*into, name)
	}
}

var (
	tinyOnce sync.Once
	tinyAll  [][]Tiny // per schema, the shortest first
)

// TinyDocs derives the small documents; at most perSchema per schema (the shortest first).
func TinyDocs(perSchema int) []Tiny {
	tinyOnce.Do(func() { tinyAll = deriveTiny() })
	var out []Tiny
	for _, got := range tinyAll {
		if perSchema > 0 && len(got) > perSchema {
			got = got[:perSchema]
		}
		out = append(out, got...)
	}
	return out
}

func deriveTiny() [][]Tiny {
	ids := schema.List()
	sort.Slice(ids, func(i, j int) bool { return ids[i] < ids[j] })
	var out [][]Tiny
	for _, id := range ids {
		typ := schema.Type(id)
		if typ == nil {
			continue
		}
		var members []string
		jsonMembers(typ, &members, 0)
		var got []Tiny
		for _, m := range members {
			for _, v := range tinyValues {
				text := fmt.Sprintf(`{"$schema":%q,%q:%s}`, id.String(), m, v)
				if d, ok := tinyCheck(id, m, text); ok {
					got = append(got, d)
				}
			}
		}
		sort.SliceStable(got, func(i, j int) bool { return len(got[i].Text) < len(got[j].Text) })
		if len(got) > 0 {
			out = append(out, got)
		}
	}
	return out
}

func tinyCheck(id schema.ID, member, text string) (d Tiny, ok bool) {
	defer func() {
		if recover() != nil {
			ok = false
		}
	}()
	obj := new(schema.Object)
	if err := json.Unmarshal([]byte(text), obj); err != nil || obj.IsEmpty() {
		return d, false
	}
	b, err := json.Marshal(obj)
	if err != nil || !bytes.Contains(b, []byte(`"`+member+`":`)) {
		return d, false
	}
	// the document as the library writes it is the text every later step starts from; only a text
	// that reads back to itself is kept (what loading does to other spellings is not C15's matter)
	again := new(schema.Object)
	if err := json.Unmarshal(b, again); err != nil {
		return d, false
	}
	if b2, err := json.Marshal(again); err != nil || !bytes.Equal(b, b2) {
		return d, false
	}
	d = Tiny{Schema: id.String(), Member: member, Text: string(b)}
	if env, err := gobl.Envelop(obj.Instance()); err == nil {
		if eb, err := json.Marshal(env); err == nil {
			// only envelopes that read back and calculate to the same text (no fresh identifiers)
			e2 := new(gobl.Envelope)
			e3 := new(gobl.Envelope)
			if json.Unmarshal(eb, e2) == nil && e2.Calculate() == nil && json.Unmarshal(eb, e3) == nil {
				eb2, err2 := json.Marshal(e2)
				eb3, err3 := json.Marshal(e3)
				if err2 == nil && err3 == nil && bytes.Equal(eb, eb2) && bytes.Equal(eb, eb3) {
					d.Env = string(eb)
				}
			}
		}
	}
	return d, true
}

// tinyEntry is one marshalling entry point: from the text of a document to the bytes handed out.
type tinyEntry struct {
	name string
	env  bool // works on the envelope text
	run  func(d Tiny) ([]byte, error)
}

func parseTiny(d Tiny) (*schema.Object, error) {
	obj := new(schema.Object)
	if err := json.Unmarshal([]byte(d.Text), obj); err != nil {
		return nil, err
	}
	return obj, nil
}

func parseTinyEnv(d Tiny) (*gobl.Envelope, error) {
	e := new(gobl.Envelope)
	if err := json.Unmarshal([]byte(d.Env), e); err != nil {
		return nil, err
	}
	return e, nil
}

var tinyEntries = []tinyEntry{
	{name: "json.Marshal(schema.Object)", run: func(d Tiny) ([]byte, error) {
		obj, err := parseTiny(d)
		if err != nil {
			return nil, err
		}
		return json.Marshal(obj)
	}},
	{name: "schema.Object.MarshalJSON", run: func(d Tiny) ([]byte, error) {
		obj, err := parseTiny(d)
		if err != nil {
			return nil, err
		}
		return obj.MarshalJSON()
	}},
	{name: "schema.Insert", run: func(d Tiny) ([]byte, error) {
		obj, err := parseTiny(d)
		if err != nil {
			return nil, err
		}
		body, err := json.Marshal(obj.Instance())
		if err != nil {
			return nil, err
		}
		return schema.Insert(obj.Schema, body)
	}},
	{name: "schema.Object.Clone", run: func(d Tiny) ([]byte, error) {
		obj, err := parseTiny(d)
		if err != nil {
			return nil, err
		}
		cl, err := obj.Clone()
		if err != nil {
			return nil, err
		}
		return json.Marshal(cl)
	}},
	{name: "json.Marshal(gobl.Envelope)", env: true, run: func(d Tiny) ([]byte, error) {
		e, err := parseTinyEnv(d)
		if err != nil {
			return nil, err
		}
		return json.Marshal(e)
	}},
	{name: "gobl.Envelope.Digest", env: true, run: func(d Tiny) ([]byte, error) {
		e, err := parseTinyEnv(d)
		if err != nil {
			return nil, err
		}
		dg, err := e.Digest()
		if err != nil {
			return nil, err
		}
		return []byte(dg.Value), nil
	}},
	{name: "gobl.Envelope.Calculate", env: true, run: func(d Tiny) ([]byte, error) {
		e, err := parseTinyEnv(d)
		if err != nil {
			return nil, err
		}
		if err := e.Calculate(); err != nil {
			return nil, err
		}
		return json.Marshal(e)
	}},
}

func runTiny(en tinyEntry, d Tiny) (out []byte, errText string) {
	defer func() {
		if r := recover(); r != nil {
			out, errText = nil, fmt.Sprint("panic: ", r)
		}
	}()
	b, err := en.run(d)
	if err != nil {
		return nil, "error: " + err.Error()
	}
	return b, ""
}

func canonAny(b []byte) (any, bool) {
	var v any
	dec := json.NewDecoder(bytes.NewReader(b))
	dec.UseNumber()
	if dec.Decode(&v) != nil {
		return nil, false
	}
	return v, true
}

// TinyWant is the sequential result of every entry point for every document (nil where the entry
// does not apply), judged by an oracle that does not depend on any other call: the object's
// entry points must hand out the document itself, the envelope's the envelope itself / a digest
// that is the one in its head.
func TinyWant(docs []Tiny) (want [][]string, problems []TinyProblem) {
	want = make([][]string, len(tinyEntries))
	for ei, en := range tinyEntries {
		want[ei] = make([]string, len(docs))
		for i, d := range docs {
			if en.env && d.Env == "" {
				continue
			}
			b, et := runTiny(en, d)
			if et != "" {
				want[ei][i] = et
				continue
			}
			want[ei][i] = "ok: " + string(b)
			ref := d.Text
			if en.env {
				ref = d.Env
			}
			bad := ""
			if en.name == "gobl.Envelope.Digest" {
				var h struct {
					Head struct {
						Dig struct {
							Val string `json:"val"`
						} `json:"dig"`
					} `json:"head"`
				}
				_ = json.Unmarshal([]byte(d.Env), &h)
				if h.Head.Dig.Val != string(b) {
					bad = fmt.Sprintf("digest %s, the envelope's head has %s", b, h.Head.Dig.Val)
				}
			} else {
				x, ok1 := canonAny(b)
				y, ok2 := canonAny([]byte(ref))
				if !ok1 || !ok2 || !reflect.DeepEqual(x, y) {
					bad = fmt.Sprintf("handed out %s for the document %s", b, ref)
				}
			}
			if bad != "" && len(problems) < 3 {
				problems = append(problems, TinyProblem{Relation: "oracle", Entry: en.name, Schema: d.Schema, What: bad, Docs: []Tiny{d}})
			}
		}
	}
	return want, problems
}

type heldResult struct {
	entry, doc int
	handed     []byte // the very slice the API returned
	snapshot   string // its content at that moment
}

// TinyStability is the sequential result-stability relation.
func TinyStability(docs []Tiny, want [][]string) (problems []TinyProblem, held int) {
	var hs []heldResult
	for ei, en := range tinyEntries {
		for i, d := range docs {
			if want[ei][i] == "" || !strings.HasPrefix(want[ei][i], "ok: ") {
				continue
			}
			b, et := runTiny(en, d)
			if et != "" {
				continue
			}
			hs = append(hs, heldResult{ei, i, b, string(b)})
		}
	}
	seen := map[string]bool{}
	for _, h := range hs {
		if string(h.handed) == h.snapshot {
			continue
		}
		en := tinyEntries[h.entry]
		k := en.name + "|" + docs[h.doc].Schema
		if seen[k] || len(problems) >= 6 {
			continue
		}
		seen[k] = true
		p := TinyProblem{Relation: "stability", Entry: en.name, Schema: docs[h.doc].Schema, Docs: []Tiny{docs[h.doc]},
			What: fmt.Sprintf("%s handed out %q for %s; after later documents were written the same bytes read %q", en.name, h.snapshot, docs[h.doc].Text, h.handed)}
		// narrow down: which single later call changes the result?
		for j := range docs {
			if j == h.doc || docs[j].Schema != docs[h.doc].Schema {
				continue
			}
			if !TinyPairStable(h.entry, docs[h.doc], docs[j]) {
				p.Docs = []Tiny{docs[h.doc], docs[j]}
				p.What += fmt.Sprintf(" (writing %s is enough)", docs[j].Text)
				break
			}
		}
		problems = append(problems, p)
	}
	return problems, len(hs)
}

// TinyPairStable: the result for a, kept, is unchanged by writing b with the same entry point.
func TinyPairStable(entry int, a, b Tiny) bool {
	en := tinyEntries[entry]
	r, et := runTiny(en, a)
	if et != "" {
		return true
	}
	snap := string(r)
	_, _ = runTiny(en, b)
	return string(r) == snap
}

// TinyEntryIndex finds an entry point by name.
func TinyEntryIndex(name string) int {
	for i, en := range tinyEntries {
		if en.name == name {
			return i
		}
	}
	return -1
}

// TinyConcurrent: goroutine result = sequential result, schema by schema (all goroutines on
// documents of the same schema at the same time, each on its own documents).
func TinyConcurrent(docs []Tiny, want [][]string, g, rounds int) (problems []TinyProblem, results int64) {
	bySchema := map[string][]int{}
	var order []string
	for i, d := range docs {
		if _, ok := bySchema[d.Schema]; !ok {
			order = append(order, d.Schema)
		}
		bySchema[d.Schema] = append(bySchema[d.Schema], i)
	}
	var mu sync.Mutex
	seen := map[string]bool{}
	report := func(ei, i int, got, when string, idx []int) {
		mu.Lock()
		defer mu.Unlock()
		k := tinyEntries[ei].name + "|" + docs[i].Schema
		if seen[k] || len(problems) >= 6 {
			return
		}
		seen[k] = true
		p := TinyProblem{Relation: "concurrent", Entry: tinyEntries[ei].name, Schema: docs[i].Schema, G: g, Procs: runtime.GOMAXPROCS(0),
			What: fmt.Sprintf("%s of %s in a goroutine gave %q (%s), sequentially %q, while other goroutines wrote other documents of the schema", tinyEntries[ei].name, docs[i].Text, got, when, want[ei][i])}
		p.Docs = append(p.Docs, docs[i])
		for _, j := range idx {
			if j != i && len(p.Docs) < 24 {
				p.Docs = append(p.Docs, docs[j])
			}
		}
		problems = append(problems, p)
	}
	for _, s := range order {
		idx := bySchema[s]
		if len(idx) < 2 {
			continue
		}
		var wg sync.WaitGroup
		start := make(chan struct{})
		var n int64
		for k := 0; k < g; k++ {
			wg.Add(1)
			go func(k int) {
				defer wg.Done()
				<-start
				cnt := int64(0)
				for r := 0; r < rounds; r++ {
					for ei, en := range tinyEntries {
						// every goroutine its own share of the documents (its own parsed copies in any case)
						for q := 0; q < (len(idx)+g-1)/g; q++ {
							i := idx[(k+q*g)%len(idx)]
							w := want[ei][i]
							if w == "" {
								continue
							}
							b, et := runTiny(en, docs[i])
							cnt++
							got := et
							if et == "" {
								got = "ok: " + string(b)
							}
							if got != w {
								report(ei, i, got, "at once", idx)
								continue
							}
							if et == "" && (q+r)%2 == 0 {
								runtime.Gosched()
								if "ok: "+string(b) != w {
									report(ei, i, "ok: "+string(b), "held across a yield", idx)
								}
							}
						}
					}
				}
				mu.Lock()
				n += cnt
				mu.Unlock()
			}(k)
		}
		close(start)
		wg.Wait()
		results += n
	}
	return problems, results
}

// TinyCorpus gives the first n small documents of every schema as documents of the pipeline corpus.
func TinyCorpus(n int) []Doc {
	var out []Doc
	for _, d := range TinyDocs(n) {
		out = append(out, Doc{Name: "small/" + strings.TrimPrefix(d.Schema, "https://gobl.org/draft-0/") + "#" + d.Text[len(d.Schema)+14:], Data: []byte(d.Text)})
	}
	return out
}
