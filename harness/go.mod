module verifharness

go 1.23.0

require (
	github.com/invopop/gobl v0.0.0
	github.com/invopop/jsonschema v0.12.0
	github.com/invopop/validation v0.7.0
	github.com/invopop/yaml v0.3.1
	golang.org/x/text v0.23.0
)

require (
	cloud.google.com/go v0.110.2 // indirect
	github.com/Masterminds/semver/v3 v3.2.1 // indirect
	github.com/asaskevich/govalidator v0.0.0-20230301143203-a9d515a09cc2 // indirect
	github.com/bahlo/generic-list-go v0.2.0 // indirect
	github.com/buger/jsonparser v1.1.1 // indirect
	github.com/go-jose/go-jose/v4 v4.0.5 // indirect
	github.com/google/uuid v1.6.0 // indirect
	github.com/imdario/mergo v0.3.16 // indirect
	github.com/mailru/easyjson v0.7.7 // indirect
	github.com/wk8/go-ordered-map/v2 v2.1.8 // indirect
	golang.org/x/crypto v0.36.0 // indirect
	gopkg.in/yaml.v3 v3.0.1 // indirect
)

replace github.com/invopop/gobl => /repo
